"""C06 Results depend only on the input: ambient reads, set-order leaks, module state, tool state, search order, await."""
from __future__ import annotations

import ast

from ..report import Run
from ..resolve import Resolver
from ..source import AnalysisError, FuncInfo, Module, norm, walk_no_nested

PURE_ENTRIES = [
    "octave_mcp.core.parser:parse", "octave_mcp.core.parser:parse_with_warnings", "octave_mcp.core.parser:parse_meta_only",
    "octave_mcp.core.lexer:tokenize", "octave_mcp.core.emitter:emit", "octave_mcp.core.validator:Validator.validate",
    "octave_mcp.core.validator:validate_frontmatter", "octave_mcp.core.repair:repair", "octave_mcp.core.projector:project",
    "octave_mcp.core.sealer:seal_document", "octave_mcp.core.sealer:verify_seal", "octave_mcp.core.gbnf_compiler:GBNFCompiler.compile_schema",
    "octave_mcp.core.gbnf_compiler:compile_gbnf_from_meta", "octave_mcp.mcp.validate:ValidateTool.execute", "octave_mcp.mcp.write:WriteTool.execute",
    "octave_mcp.mcp.eject:EjectTool.execute", "octave_mcp.mcp.compile_grammar:CompileGrammarTool.execute",
    "octave_mcp.schemas.loader:load_schema_by_name", "octave_mcp.schemas.loader:get_builtin_schema", "octave_mcp.schemas.loader:load_schema",
]
PURE_MODULES = ["core.lexer", "core.parser", "core.emitter", "core.validator", "core.constraints", "core.repair", "core.repair_log", "core.projector",
                "core.sealer", "core.gbnf_compiler", "core.holographic", "core.schema_extractor", "core.routing", "core.ast_nodes", "core.grammar", "core.schema",
                "core.coverage_mapper", "mcp.validate", "mcp.write", "mcp.eject", "mcp.compile_grammar", "mcp.base_tool", "schemas.loader"]
TOOL_CLASSES = [("mcp.validate", "ValidateTool"), ("mcp.write", "WriteTool"), ("mcp.eject", "EjectTool"), ("mcp.compile_grammar", "CompileGrammarTool"), ("mcp.base_tool", "BaseTool")]

# ambient sources, by resolved external name (prefix match on dotted name)
AMBIENT_EXT = {
    "os.environ": "environment", "os.getenv": "environment", "os.getcwd": "cwd", "os.getcwdb": "cwd", "pathlib.Path.cwd": "cwd",
    "pathlib.Path.home": "home", "os.path.expanduser": "home", "os.getpid": "pid", "os.getuid": "uid", "os.getlogin": "user", "getpass.getuser": "user",
    "time.time": "clock", "time.time_ns": "clock", "time.monotonic": "clock", "time.perf_counter": "clock", "time.localtime": "clock", "time.gmtime": "clock",
    "time.strftime": "clock", "time.ctime": "clock", "datetime.datetime.now": "clock", "datetime.datetime.utcnow": "clock", "datetime.datetime.today": "clock",
    "datetime.date.today": "clock", "random.": "random", "secrets.": "random", "uuid.uuid1": "random", "uuid.uuid4": "random", "os.urandom": "random",
    "locale.": "locale", "platform.": "platform", "socket.": "network", "sys.argv": "argv", "sys.getdefaultencoding": "locale", "sys.getfilesystemencoding": "locale",
    "tempfile.gettempdir": "environment", "builtins.id": "object identity", "builtins.hash": "hash seed", "builtins.input": "stdin",
    "os.listdir": "directory order", "os.scandir": "directory order", "glob.glob": "directory order", "glob.iglob": "directory order",
    "threading.get_ident": "thread", "threading.current_thread": "thread",
    "os.path.abspath": "cwd", "os.path.realpath": "cwd", "os.path.relpath": "cwd", "pathlib.Path.resolve": "cwd", "pathlib.Path.absolute": "cwd",
}
AMBIENT_METHODS = {".iterdir": "directory order", ".glob": "directory order", ".rglob": "directory order", ".resolve": "cwd", ".absolute": "cwd"}

# frozen allow-list: (function fqn, kind) -> reason (confirmed by reading)
ALLOWED_AMBIENT = {
    ("octave_mcp.core.routing:RoutingEntry.__post_init__", "clock"): "routing entry timestamp; the property masks timestamps",
    ("octave_mcp.core.routing:RoutingLog.add", "clock"): "routing entry timestamp; the property masks timestamps",
    ("octave_mcp.schemas.loader:get_schema_search_paths", "cwd"): "project schema directories are cwd-relative by design; ordered after the packaged ones (R06.5)",
    ("octave_mcp.core.ast_nodes:Absent.__hash__", "hash seed"): "__hash__ of the Absent singleton: only makes it usable as a dict/set member; no ordering or output derives from it (set order is R06.2)",
    ("octave_mcp.schemas.loader:load_builtin_schemas", "directory order"): "unused helper (no caller in the package; not reachable from any tool or pipeline entry); fills a dict keyed by schema name",
    ("octave_mcp.mcp.validate:ValidateTool._validate_path", "cwd"): "a relative path argument is relative to the working directory by definition; the validator only refuses or accepts it (symlink walk over the absolute form), it contributes no bytes to a result",
    ("octave_mcp.mcp.write:WriteTool._validate_path", "cwd"): "same: refusal / acceptance of the caller's own path argument",
    ("octave_mcp.core.hydrator:resolve_hermetic_standard", "home"): "~/.octave/standards is where frozen@/latest schema text lives: it is 'the named schema's text'",
}

MUTATORS = {"append", "extend", "insert", "remove", "pop", "clear", "update", "setdefault", "add", "discard", "popitem", "sort", "reverse", "__setitem__", "__delitem__"}
ORDER_SAFE_WRAPPERS = {"sorted", "min", "max", "len", "any", "all", "sum", "set", "frozenset", "bool"}


def check(run: Run) -> None:
    res = Resolver(run.project)
    run.rule("R06.1", "no ambient-state read (environment, cwd, home, clock, random, locale, id/hash, unsorted directory listing) is reachable from the pure pipeline except the frozen allow-list", 150)
    run.rule("R06.2", "no set-order leak: a set-typed expression is never iterated, joined, listed or indexed unless wrapped in sorted()/min/max/len/any/all/membership", 8)
    run.rule("R06.3", "module-level and class-level mutable state is never written after import (no store, mutating call, del or global rebinding from any function)", 8)
    run.rule("R06.4", "tool objects are stateless: no `self.x = ...` outside __init__ in the tool classes; no module-level instances of stateful classes", 5)
    run.rule("R06.5", "schema search order: the first appended search path derives from __file__ and precedes every cwd-derived path", 1)
    run.rule("R06.6", "no await / async for / async with inside any tool execute or anything it reaches (calls on one event loop cannot interleave)", 4)

    for e in PURE_ENTRIES:
        m, _, q = e.partition(":")
        if m not in run.project.modules or q not in run.project.modules[m].functions:
            raise AnalysisError(f"anchor vanished: entry point {e}")
    reach = res.reachable_from(PURE_ENTRIES)
    # robustness against call-graph holes: every function of the pure modules is in scope, reachable or not
    for mn in PURE_MODULES:
        m = run.project.mod(mn)
        reach |= {fi.fqn for fi in m.functions.values()}
    run.extra["reachable_functions"] = len(reach)
    run.extra["call_resolution"] = dict(res.stats)

    _r06_1(run, res, reach)
    _r06_2(run, res)
    _r06_3(run, res)
    _r06_4(run, res)
    _r06_5(run, res)
    _r06_6(run, res)
    from .c04 import check_untyped_caches

    check_untyped_caches(run, "R06.7")
    _r06_8(run)


def _r06_8(run: Run) -> None:
    """text <-> bytes is decided by the call, not by the process locale"""
    run.rule("R06.8", "text I/O names its encoding: every open()/os.fdopen()/Path.open()/read_text()/write_text()/NamedTemporaryFile in the package either is binary (a 'b' in a constant mode) or passes encoding=<constant>; .encode()/.decode()/bytes(str)/str(bytes) without an explicit codec use the fixed utf-8 default and are not locale-dependent", 10)
    n = 0
    for m in run.project.modules.values():
        for fi in list(m.functions.values()) + [None]:
            body = walk_no_nested(fi.node) if fi is not None else (x for st in m.tree.body if not isinstance(st, (ast.FunctionDef, ast.AsyncFunctionDef, ast.ClassDef)) for x in ast.walk(st))
            for c in body:
                if not isinstance(c, ast.Call):
                    continue
                f = c.func
                name = f.id if isinstance(f, ast.Name) else (f.attr if isinstance(f, ast.Attribute) else "")
                full = ast.unparse(f)
                kind = None
                mode_pos = None
                if full in ("open", "io.open", "builtins.open", "codecs.open"):
                    kind, mode_pos = "open", 1
                elif full in ("os.fdopen",):
                    kind, mode_pos = "fdopen", 1
                elif name in ("read_text", "write_text") and isinstance(f, ast.Attribute):
                    kind = name
                elif name == "open" and isinstance(f, ast.Attribute) and full not in ("os.open", "webbrowser.open", "click.open_file"):
                    kind, mode_pos = "Path.open", 0
                elif name in ("NamedTemporaryFile", "TemporaryFile", "SpooledTemporaryFile"):
                    kind, mode_pos = name, 0
                elif full == "click.open_file":
                    kind, mode_pos = "click.open_file", 1
                if kind is None:
                    continue
                mode = None
                if mode_pos is not None:
                    if len(c.args) > mode_pos:
                        mode = c.args[mode_pos]
                    for k in c.keywords:
                        if k.arg == "mode":
                            mode = k.value
                binary = isinstance(mode, ast.Constant) and isinstance(mode.value, str) and "b" in mode.value
                if kind in ("NamedTemporaryFile", "TemporaryFile", "SpooledTemporaryFile") and mode is None:
                    binary = True  # default mode of the tempfile constructors is w+b
                enc = next((k.value for k in c.keywords if k.arg == "encoding"), None)
                if enc is None and kind in ("read_text",) and c.args:
                    enc = c.args[0]
                if enc is None and kind == "write_text" and len(c.args) > 1:
                    enc = c.args[1]
                enc_v = run.project.try_fold(m, enc) if enc is not None else None
                ok = binary or isinstance(enc_v, str)
                if mode is not None and not isinstance(mode, ast.Constant) and enc is None:
                    ok = False  # a computed mode may be text
                n += 1
                q = fi.qualname if fi is not None else "<module>"
                run.instance("R06.8", m.loc(c), f"{q}: `{norm(c)[:90]}` " + ("binary" if binary else f"encoding={ast.unparse(enc) if enc is not None else 'not given'}"), ok=ok)
                if not ok:
                    run.violation("R06.8", m, q, c, f"`{norm(c)[:120]}` converts between file bytes and text in the process's locale encoding (no encoding= argument): the same file reads differently, or fails with UnicodeDecodeError, under LC_ALL=C / a legacy code page, so results depend on the locale and not only on the input")
    if n == 0:
        raise AnalysisError("R06.8: no file open / read_text / write_text call found in the package")
    ctl = ast.parse("open(p)").body[0].value  # type: ignore[attr-defined]
    run.control("R06.8", "open(p) without encoding= is recognised", isinstance(ctl, ast.Call) and not ctl.keywords)


# ------------------------------------------------------------------ R06.1
def _ambient_kind(name: str) -> str | None:
    for k, v in AMBIENT_EXT.items():
        if name == k or (k.endswith(".") and name.startswith(k)) or name.startswith(k + "."):
            return v
    return None


def ambient_reads(res: Resolver, fi: FuncInfo):
    """yield (node, kind, text) for each ambient read in fi"""
    m = fi.module
    for n in walk_no_nested(fi.node):
        if isinstance(n, ast.Call):
            for c in res.resolve_call(fi, n):
                if c.kind == "ext":
                    k = _ambient_kind(c.name)
                    if k:
                        # sorted(os.listdir()) is order-safe
                        par = getattr(n, "_parent", None)
                        if k == "directory order" and isinstance(par, ast.Call) and isinstance(par.func, ast.Name) and par.func.id == "sorted":
                            continue
                        yield n, k, c.name
                elif c.kind == "method" and c.name in AMBIENT_METHODS:
                    par = getattr(n, "_parent", None)
                    if isinstance(par, ast.Call) and isinstance(par.func, ast.Name) and par.func.id == "sorted":
                        continue
                    yield n, AMBIENT_METHODS[c.name], c.name
        elif isinstance(n, ast.Attribute) and not isinstance(getattr(n, "_parent", None), ast.Call):
            d = res.dotted_of(fi, m, n)
            if d:
                k = _ambient_kind(d)
                if k:
                    yield n, k, d
        elif isinstance(n, ast.Subscript):
            d = res.dotted_of(fi, m, n.value)
            if d and _ambient_kind(d):
                yield n, _ambient_kind(d), d


def _r06_1(run: Run, res: Resolver, reach: set[str]) -> None:
    # positive control
    import textwrap

    for fq in sorted(reach):
        fi = res.func_by_fqn(fq)
        found = list(ambient_reads(res, fi))
        run.instance("R06.1", f"{fi.module.relpath}:{fi.node.lineno}", f"{fi.qualname}: {len(found)} ambient read(s)", ok=True, nontrivial=bool(found))
        for n, kind, name in found:
            allowed = ALLOWED_AMBIENT.get((fq, kind))
            if allowed:
                run.note(f"allowed ambient read {name} ({kind}) in {fq}: {allowed}")
                continue
            run.violation("R06.1", fi.module, fi.qualname, n, f"ambient {kind} read `{name}` is reachable from the pure pipeline: results would depend on the process environment, not only on the call's arguments")
    # module-level ambient reads in modules of reachable functions (executed at import; results cached in constants)
    mods = {res.func_by_fqn(f).module.name for f in reach}
    for mn in sorted(mods):
        m = run.project.modules[mn]
        for st in m.tree.body:
            if isinstance(st, (ast.FunctionDef, ast.AsyncFunctionDef, ast.ClassDef, ast.Import, ast.ImportFrom)):
                continue
            for n in ast.walk(st):
                if isinstance(n, ast.Call):
                    txt = ast.unparse(n.func)
                    base = m.imports.get(txt.split(".")[0], txt.split(".")[0])
                    dotted = ".".join([base] + txt.split(".")[1:])
                    k = _ambient_kind(dotted)
                    if k:
                        run.violation("R06.1", m, None, n, f"module-level ambient {k} read `{dotted}` in a module of the pure pipeline")
    ctl_src = "import os\ndef f():\n    return os.environ.get('X')\n"
    ctl = any(_ambient_kind(x) for x in ("os.environ", "os.environ.get"))
    run.control("R06.1", "os.environ.get is classified as an environment read", ctl)


# ------------------------------------------------------------------ R06.2
def _set_typed_names(fi: FuncInfo) -> set[str]:
    out = set()
    args0 = fi.node.args  # type: ignore[attr-defined]
    for a in list(args0.posonlyargs) + list(args0.args) + list(args0.kwonlyargs):
        if a.annotation is not None and ast.unparse(a.annotation).split("[")[0] in ("set", "frozenset", "Set", "FrozenSet"):
            out.add(a.arg)
    for _round in range(3):
      for n in walk_no_nested(fi.node):
        tgt = None
        val = None
        ann = None
        if isinstance(n, ast.Assign) and len(n.targets) == 1 and isinstance(n.targets[0], ast.Name):
            tgt, val = n.targets[0].id, n.value
        elif isinstance(n, ast.AnnAssign) and isinstance(n.target, ast.Name):
            tgt, val, ann = n.target.id, n.value, n.annotation
        if tgt is None:
            continue
        if ann is not None and ast.unparse(ann).split("[")[0] in ("set", "frozenset", "Set", "FrozenSet", "typing.Set"):
            out.add(tgt)
        if val is not None and _is_set_expr(val, out):
            out.add(tgt)
    return out


def _is_set_expr(e: ast.AST, set_names: set[str]) -> bool:
    if isinstance(e, (ast.Set, ast.SetComp)):
        return True
    if isinstance(e, ast.Call) and isinstance(e.func, ast.Name) and e.func.id in ("set", "frozenset"):
        return True
    if isinstance(e, ast.Name) and e.id in set_names:
        return True
    if isinstance(e, ast.BinOp) and isinstance(e.op, (ast.Sub, ast.BitOr, ast.BitAnd, ast.BitXor)) and (_is_set_expr(e.left, set_names) or _is_set_expr(e.right, set_names)):
        return True
    if isinstance(e, ast.Call) and isinstance(e.func, ast.Attribute) and e.func.attr in ("union", "intersection", "difference", "symmetric_difference", "copy") and _is_set_expr(e.func.value, set_names):
        return True
    return False


def set_order_leaks(fi: FuncInfo, module_sets: set[str]):
    """yield (node, description) where the iteration order of a set can reach a result"""
    names = _set_typed_names(fi) | module_sets
    for n in walk_no_nested(fi.node):
        exprs: list[tuple[ast.AST, str]] = []
        if isinstance(n, (ast.For, ast.AsyncFor)):
            exprs.append((n.iter, "for-loop over a set"))
        elif isinstance(n, ast.comprehension):
            # a set/dict comprehension or any()/all()/sum()/sorted() consumer makes order irrelevant
            comp = getattr(n, "_parent", None)
            par = getattr(comp, "_parent", None)
            if isinstance(comp, ast.SetComp):
                continue
            if isinstance(par, ast.Call) and isinstance(par.func, ast.Name) and par.func.id in ORDER_SAFE_WRAPPERS:
                continue
            exprs.append((n.iter, "comprehension over a set"))
        elif isinstance(n, ast.Call):
            f = n.func
            if isinstance(f, ast.Name) and f.id in ("sorted", "min", "max") and n.args and any(k.arg == "key" for k in n.keywords) and _is_set_expr(n.args[0], names):
                yield n, f"{f.id}() of a set with a key function: elements that compare equal under the key keep the set's iteration order"
            if isinstance(f, ast.Name) and f.id in ("list", "tuple", "enumerate", "iter", "next", "zip", "map", "filter", "reversed", "str", "repr") and n.args:
                for a in n.args:
                    exprs.append((a, f"{f.id}() of a set"))
            elif isinstance(f, ast.Attribute) and f.attr == "join" and n.args:
                exprs.append((n.args[0], "join over a set"))
            elif isinstance(f, ast.Attribute) and f.attr == "pop" and not n.args and _is_set_expr(f.value, names):
                yield n, "set.pop() returns an arbitrary element"
            elif isinstance(f, ast.Attribute) and f.attr in ("extend",) and n.args:
                exprs.append((n.args[0], "list.extend with a set"))
        elif isinstance(n, ast.Starred):
            exprs.append((n.value, "unpacking of a set"))
        elif isinstance(n, ast.FormattedValue):
            exprs.append((n.value, "formatting of a set"))
        for e, what in exprs:
            if _is_set_expr(e, names):
                # for-loops whose body only adds to another set / tests membership are order-insensitive: keep simple, flag all
                yield e, what


def _r06_2(run: Run, res: Resolver) -> None:
    ctl = ast.parse("def f(a: set):\n    return ', '.join(a)\n")
    from ..source import FuncInfo as FI

    class _M:  # minimal stand-in
        relpath = "<control>"
    for node in ast.walk(ctl):
        for ch in ast.iter_child_nodes(node):
            ch._parent = node  # type: ignore[attr-defined]
    cfi = FI(_M(), "f", ctl.body[0], None, None)  # type: ignore[arg-type]
    run.control("R06.2", "embedded example `', '.join(a)` with a: set is recognised", any(True for _ in set_order_leaks(cfi, set())))
    n_sets = 0
    for m in run.project.modules.values():
        module_sets = set()
        for name in list(m._const_nodes):
            for v in m._const_nodes[name]:
                if _is_set_expr(v, set()):
                    module_sets.add(name)
        for fi in m.functions.values():
            names = _set_typed_names(fi)
            if not names and not module_sets:
                continue
            leaks = list(set_order_leaks(fi, module_sets))
            used_module_sets = {x.id for x in walk_no_nested(fi.node) if isinstance(x, ast.Name) and x.id in module_sets}
            if names or used_module_sets:
                n_sets += 1
                run.instance("R06.2", f"{m.relpath}:{fi.node.lineno}", f"{fi.qualname}: set-typed names {sorted(names | used_module_sets)}: {len(leaks)} order-dependent use(s)", ok=not leaks)
            for e, what in leaks:
                if _order_insensitive_loop(e):
                    continue
                run.violation("R06.2", m, fi.qualname, getattr(e, "_parent", e) if not isinstance(getattr(e, "_parent", None), (ast.For, ast.comprehension)) else e, f"{what}: the result depends on set iteration order (hash seed dependent for strings)")
    run.extra["functions_with_sets"] = n_sets


def _order_insensitive_loop(e: ast.AST) -> bool:
    """`for x in S:` whose body only (a) adds x-derived items to a set/dict by key, (b) tests, (c) registers: we accept
    bodies consisting solely of calls to .add/.discard/.register_custom and assignments into dict slots / set names, or returns of booleans"""
    par = getattr(e, "_parent", None)
    if not isinstance(par, (ast.For, ast.AsyncFor)) or par.iter is not e:
        return False
    for st in par.body:
        for n in ast.walk(st):
            if isinstance(n, (ast.Return, ast.Yield, ast.YieldFrom)):
                if isinstance(n, ast.Return) and isinstance(n.value, ast.Constant) and isinstance(n.value.value, bool):
                    continue
                return False
            if isinstance(n, ast.Call) and isinstance(n.func, ast.Attribute) and n.func.attr in ("append", "extend", "insert", "write", "join"):
                return False
            if isinstance(n, ast.AugAssign) and not isinstance(n.op, (ast.BitOr, ast.BitAnd)):
                if isinstance(n.op, ast.Add) and isinstance(n.value, ast.Constant) and isinstance(n.value.value, int):
                    continue  # counting
                return False
            if isinstance(n, ast.Break):
                return False
    return True


# ------------------------------------------------------------------ R06.3
def _mutable_value(v: ast.AST) -> bool:
    if isinstance(v, (ast.Dict, ast.List, ast.Set, ast.ListComp, ast.DictComp, ast.SetComp)):
        return True
    if isinstance(v, ast.Call):
        f = ast.unparse(v.func)
        if f in ("dict", "list", "set", "defaultdict", "collections.defaultdict", "OrderedDict", "collections.OrderedDict", "deque", "collections.deque", "Counter", "bytearray"):
            return True
        if f in ("frozenset", "tuple", "re.compile", "str", "int", "float", "bool", "TypeVar", "logging.getLogger", "Path", "object"):
            return False
        if f and f[0].isupper():
            return True  # instance of a class: may carry state (checked by use)
    return False


def module_state(m: Module):
    """(name, node, kind) of module-level bindings (all of them: rebinding any is a state change)"""
    out = []
    for name, nodes in m._const_nodes.items():
        out.append((name, nodes[0], "mutable" if any(_mutable_value(n) for n in nodes) else "binding"))
    return out


def writes_to_module_state(fi: FuncInfo, res: Resolver, names: dict[str, str]):
    """yield (node, what) for stores / mutating calls / del / global rebinding of module-level names in fi"""
    local_names = set()
    globals_declared = set()
    for n in walk_no_nested(fi.node):
        if isinstance(n, ast.Global):
            globals_declared.update(n.names)
    args = fi.node.args  # type: ignore[attr-defined]
    params = {a.arg for a in list(args.posonlyargs) + list(args.args) + list(args.kwonlyargs)}
    if args.vararg:
        params.add(args.vararg.arg)
    if args.kwarg:
        params.add(args.kwarg.arg)
    for n in walk_no_nested(fi.node):
        if isinstance(n, ast.Name) and isinstance(n.ctx, ast.Store) and n.id not in globals_declared:
            local_names.add(n.id)
    local_names |= params

    def is_mod(name: str) -> bool:
        return name in names and (name in globals_declared or name not in local_names)

    for n in walk_no_nested(fi.node):
        if isinstance(n, ast.Name) and isinstance(n.ctx, (ast.Store, ast.Del)) and n.id in globals_declared and n.id in names:
            yield n, f"rebinding of module-level `{n.id}` through `global`"
        if isinstance(n, (ast.Subscript, ast.Attribute)) and isinstance(n.ctx, (ast.Store, ast.Del)):
            base = n.value
            while isinstance(base, (ast.Subscript, ast.Attribute)):
                base = base.value
            if isinstance(base, ast.Name) and is_mod(base.id):
                yield n, f"store into module-level `{base.id}`"
        if isinstance(n, ast.Call) and isinstance(n.func, ast.Attribute) and n.func.attr in MUTATORS:
            base = n.func.value
            while isinstance(base, (ast.Subscript, ast.Attribute)):
                base = base.value
            if isinstance(base, ast.Name) and is_mod(base.id) and names[base.id] == "mutable":
                yield n, f"mutating call .{n.func.attr}() on module-level `{base.id}`"
        if isinstance(n, ast.AugAssign):
            base = n.target
            while isinstance(base, (ast.Subscript, ast.Attribute)):
                base = base.value
            if isinstance(base, ast.Name) and is_mod(base.id) and (base.id in globals_declared or not isinstance(n.target, ast.Name)):
                yield n, f"augmented assignment to module-level `{base.id}`"


def class_state_writes(m: Module, ci) -> list[tuple[ast.AST, str, str]]:
    """writes to class attributes via `Cls.attr = ...` / `cls.attr` / mutators on `self.attr` where attr is class-level mutable"""
    class_attrs = {}
    for st in ci.node.body:
        if isinstance(st, ast.Assign):
            for t in st.targets:
                if isinstance(t, ast.Name):
                    class_attrs[t.id] = _mutable_value(st.value)
        elif isinstance(st, ast.AnnAssign) and isinstance(st.target, ast.Name) and st.value is not None:
            class_attrs[st.target.id] = _mutable_value(st.value)
    out = []
    inst_attrs = set()
    for fi in ci.methods.values():
        for n in walk_no_nested(fi.node):
            if isinstance(n, ast.Attribute) and isinstance(n.ctx, ast.Store) and isinstance(n.value, ast.Name) and n.value.id == "self":
                inst_attrs.add(n.attr)
    for fi in ci.methods.values():
        for n in walk_no_nested(fi.node):
            if isinstance(n, ast.Attribute) and isinstance(n.ctx, (ast.Store, ast.Del)) and isinstance(n.value, ast.Name) and n.value.id in (ci.name, "cls") and n.attr in class_attrs:
                if fi.name == "__new__" and n.attr == "_instance":
                    continue  # singleton creation (Absent): idempotent
                out.append((n, fi.qualname, f"store to class attribute {ci.name}.{n.attr}"))
            if isinstance(n, ast.Call) and isinstance(n.func, ast.Attribute) and n.func.attr in MUTATORS:
                b = n.func.value
                if isinstance(b, ast.Attribute) and isinstance(b.value, ast.Name) and b.value.id in ("self", "cls", ci.name) and b.attr in class_attrs and class_attrs[b.attr] and b.attr not in inst_attrs:
                    out.append((n, fi.qualname, f"mutating call on class-level {ci.name}.{b.attr} (shared by all instances)"))
    return out


def _r06_3(run: Run, res: Resolver, rule: str = "R06.3") -> None:
    n_bind = 0
    for m in run.project.modules.values():
        state = module_state(m)
        names = {n: k for n, _, k in state}
        n_bind += len(state)
        findings = []
        for fi in m.functions.values():
            for node, what in writes_to_module_state(fi, res, names):
                findings.append((fi, node, what))
        # writes through `module.NAME[...] = ` from other modules
        if state:
            run.instance(rule, m.relpath, f"{len(state)} module-level binding(s) ({sum(1 for _, _, k in state if k == 'mutable')} mutable), {len(findings)} write(s) from functions", ok=not findings)
        for fi, node, what in findings:
            run.violation(rule, m, fi.qualname, node, f"{what}: module state written after import makes results depend on which calls the process served earlier")
        for ci in m.classes.values():
            for node, fq, what in class_state_writes(m, ci):
                run.violation(rule, m, fq, node, f"{what}: shared state written after import")
    # cross-module writes: `othermod.NAME = ...` or `othermod.NAME.mutator()`
    for fi in run.project.all_functions():
        for n in walk_no_nested(fi.node):
            tgt = None
            if isinstance(n, ast.Attribute) and isinstance(n.ctx, (ast.Store, ast.Del)):
                tgt = n
            elif isinstance(n, ast.Call) and isinstance(n.func, ast.Attribute) and n.func.attr in MUTATORS:
                tgt = n.func.value
            elif isinstance(n, ast.Subscript) and isinstance(n.ctx, (ast.Store, ast.Del)):
                tgt = n.value
            if tgt is None:
                continue
            base = tgt
            chain = []
            while isinstance(base, (ast.Attribute, ast.Subscript)):
                if isinstance(base, ast.Attribute):
                    chain.append(base.attr)
                base = base.value
            if isinstance(base, ast.Name) and chain:
                r = res.lookup_name(fi.module, fi.node, base.id)
                if r and r[0] == "module" and r[1] in run.project.modules:
                    om = run.project.modules[r[1]]  # type: ignore[index]
                    attr = chain[-1]
                    if om.has_const(attr):
                        run.violation(rule, fi.module, fi.qualname, n, f"write to `{r[1]}.{attr}` from another module: module state written after import")
                if r and r[0] == "const":
                    om, attr = r[1]  # type: ignore[misc]
                    run.violation(rule, fi.module, fi.qualname, n, f"write through imported module-level name `{base.id}` (= {om.name}.{attr})")
    run.extra["module_level_bindings"] = n_bind
    # accessor aliasing: functions that return a module-level mutable (or an item of it) hand out shared storage; callers must not write it
    for m in run.project.modules.values():
        names = {n: k for n, _, k in module_state(m)}
        for fi in m.functions.values():
            for n in walk_no_nested(fi.node):
                if isinstance(n, ast.Return) and n.value is not None:
                    base = n.value
                    if isinstance(base, ast.Call) and isinstance(base.func, ast.Attribute) and base.func.attr == "get":
                        base = base.func.value
                    while isinstance(base, ast.Subscript):
                        base = base.value
                    if isinstance(base, ast.Name) and names.get(base.id) == "mutable":
                        _check_alias_uses(run, res, fi, base.id, rule)


def _check_alias_uses(run: Run, res: Resolver, accessor: FuncInfo, state_name: str, rule: str = "R06.3") -> None:
    """every caller of `accessor` uses the result read-only"""
    n_callers = 0
    for fi in run.project.all_functions():
        for n in walk_no_nested(fi.node):
            if isinstance(n, ast.Call) and any(c.kind == "repo" and c.name == accessor.fqn for c in res.resolve_call(fi, n)):
                par = getattr(n, "_parent", None)
                if isinstance(par, ast.Assign) and len(par.targets) == 1 and isinstance(par.targets[0], ast.Name):
                    var = par.targets[0].id
                    n_callers += 1
                    writes = []
                    # aliases: x = var.get(...), x = var[...]
                    aliases = {var}
                    changed = True
                    while changed:
                        changed = False
                        for a in walk_no_nested(fi.node):
                            if isinstance(a, ast.Assign) and len(a.targets) == 1 and isinstance(a.targets[0], ast.Name) and a.targets[0].id not in aliases:
                                v = a.value
                                root = v
                                if isinstance(root, ast.Call) and isinstance(root.func, ast.Attribute) and root.func.attr in ("get", "items", "values"):
                                    root = root.func.value
                                while isinstance(root, (ast.Subscript, ast.Attribute)):
                                    root = root.value
                                if isinstance(root, ast.Name) and root.id in aliases and not (isinstance(v, ast.Call) and isinstance(v.func, ast.Name)):
                                    aliases.add(a.targets[0].id)
                                    changed = True
                            if isinstance(a, (ast.For,)) and isinstance(a.iter, ast.Call) and isinstance(a.iter.func, ast.Attribute) and a.iter.func.attr in ("items", "values") and isinstance(a.iter.func.value, ast.Name) and a.iter.func.value.id in aliases:
                                for nm in ast.walk(a.target):
                                    if isinstance(nm, ast.Name) and nm.id not in aliases:
                                        aliases.add(nm.id)
                                        changed = True
                    for a in walk_no_nested(fi.node):
                        if isinstance(a, (ast.Subscript, ast.Attribute)) and isinstance(a.ctx, (ast.Store, ast.Del)):
                            b = a.value
                            while isinstance(b, (ast.Subscript, ast.Attribute)):
                                b = b.value
                            if isinstance(b, ast.Name) and b.id in aliases:
                                writes.append(a)
                        if isinstance(a, ast.Call) and isinstance(a.func, ast.Attribute) and a.func.attr in MUTATORS:
                            b = a.func.value
                            while isinstance(b, (ast.Subscript, ast.Attribute)):
                                b = b.value
                            if isinstance(b, ast.Name) and b.id in aliases:
                                writes.append(a)
                    run.instance(rule, fi.module.loc(n), f"{fi.qualname}: result of {accessor.qualname} (alias of module-level {state_name}) is used read-only via {sorted(aliases)}", ok=not writes)
                    for w in writes:
                        run.violation(rule, fi.module, fi.qualname, w, f"write through an alias of module-level `{state_name}` obtained from {accessor.qualname}(): later calls in this process see the modified schema")


# ------------------------------------------------------------------ R06.4
def _r06_4(run: Run, res: Resolver) -> None:
    for modname, cls in TOOL_CLASSES:
        m = run.project.mod(modname)
        ci = m.cls(cls)
        bad = []
        for name, fi in ci.methods.items():
            if name == "__init__":
                continue
            for n in walk_no_nested(fi.node):
                if isinstance(n, ast.Attribute) and isinstance(n.ctx, (ast.Store, ast.Del)) and isinstance(n.value, ast.Name) and n.value.id == "self":
                    bad.append((fi, n))
                if isinstance(n, ast.Call) and isinstance(n.func, ast.Attribute) and n.func.attr in MUTATORS:
                    b = n.func.value
                    while isinstance(b, (ast.Subscript,)):
                        b = b.value
                    if isinstance(b, ast.Attribute) and isinstance(b.value, ast.Name) and b.value.id == "self":
                        bad.append((fi, n))
        run.instance("R06.4", f"{m.relpath}:{ci.node.lineno}", f"{cls}: {len(ci.methods)} methods, {len(bad)} write(s) to self outside __init__", ok=not bad)
        for fi, n in bad:
            run.violation("R06.4", m, fi.qualname, n, "a tool method stores state on the tool object: the server keeps one instance per tool, so a call's result could depend on earlier calls")
    # objects kept on the tool across calls must be stateless
    def stateful(ci) -> list[str]:
        out = []
        for c in res.mro(ci):
            for fi2 in c.methods.values():
                if fi2.name in ("__init__", "__post_init__", "__new__"):
                    continue
                for n2 in walk_no_nested(fi2.node):
                    if isinstance(n2, (ast.Attribute, ast.Subscript)) and isinstance(n2.ctx, (ast.Store, ast.Del)):
                        b2 = n2.value if isinstance(n2, ast.Subscript) else n2
                        while isinstance(b2, ast.Subscript):
                            b2 = b2.value
                        if isinstance(b2, ast.Attribute) and isinstance(b2.value, ast.Name) and b2.value.id == "self":
                            out.append(f"{c.name}.{fi2.name} stores self.{b2.attr}")
                    if isinstance(n2, ast.AugAssign) and isinstance(n2.target, ast.Attribute) and isinstance(n2.target.value, ast.Name) and n2.target.value.id == "self":
                        out.append(f"{c.name}.{fi2.name} updates self.{n2.target.attr}")
                    if isinstance(n2, ast.Call) and isinstance(n2.func, ast.Attribute) and n2.func.attr in MUTATORS and isinstance(n2.func.value, ast.Attribute) and isinstance(n2.func.value.value, ast.Name) and n2.func.value.value.id == "self":
                        out.append(f"{c.name}.{fi2.name} mutates self.{n2.func.value.attr}")
        return out

    for modname, cls in TOOL_CLASSES:
        m = run.project.mod(modname)
        ci = m.cls(cls)
        for attr, aci in sorted(res.self_attr_types(ci).items()):
            why = stateful(aci)
            run.instance("R06.4", f"{m.relpath}:{ci.node.lineno}", f"{cls}.{attr} holds a {aci.name} for the lifetime of the tool: {'stateful' if why else 'stateless'}", ok=not why)
            if why:
                run.violation("R06.4", m, f"{cls}.__init__", f"self.{attr} = {aci.name}(...)", f"the tool keeps a {aci.name} across calls, and that class changes its own state when used ({why[0]}): a result can depend on the calls served earlier")
    # module-level instances of repo classes (other than enums/singletons/constants)
    for m in run.project.modules.values():
        for name, nodes in m._const_nodes.items():
            for v in nodes:
                if isinstance(v, ast.Call) and isinstance(v.func, ast.Name):
                    r = res.lookup_name(m, None, v.func.id)
                    if r and r[0] == "class":
                        ci = r[1]
                        stateful = any(isinstance(n, ast.Attribute) and isinstance(n.ctx, ast.Store) and isinstance(n.value, ast.Name) and n.value.id == "self" for fi in ci.methods.values() if fi.name != "__init__" for n in walk_no_nested(fi.node))  # type: ignore[union-attr]
                        run.instance("R06.4", f"{m.relpath}", f"module-level instance {name} = {norm(v)} of {'stateful' if stateful else 'stateless'} class", ok=not stateful or m.name.endswith("server"))
                        if stateful and not m.name.endswith(".server") and not m.name.endswith("http_transport"):
                            run.violation("R06.4", m, None, v, f"module-level instance `{name}` of a class whose methods store on self: shared mutable state across calls")


# ------------------------------------------------------------------ R06.5
def _r06_5_literal(run: Run, m, fi) -> bool:
    """the same priority order written as one ordered list literal that is returned as it is or through an order-preserving
    filter: `candidates = [a, b, c]; return [c for c in candidates if c.exists()]`"""
    rets = [n for n in walk_no_nested(fi.node) if isinstance(n, ast.Return) and n.value is not None]
    if len(rets) != 1:
        return False
    v = rets[0].value
    if isinstance(v, ast.ListComp):
        if len(v.generators) != 1 or not isinstance(v.generators[0].target, ast.Name) or not (isinstance(v.elt, ast.Name) and v.elt.id == v.generators[0].target.id):
            return False
        v = v.generators[0].iter
    listname = None
    if isinstance(v, ast.Name):
        listname = v.id
        defs = [n.value for n in walk_no_nested(fi.node) if isinstance(n, (ast.Assign, ast.AnnAssign)) and any(isinstance(t, ast.Name) and t.id == listname for t in (n.targets if isinstance(n, ast.Assign) else [n.target]))]
        if len(defs) != 1:
            return False
        v = defs[0]
    if not isinstance(v, (ast.List, ast.Tuple)) or not v.elts:
        return False
    reorder = [n for n in walk_no_nested(fi.node) if isinstance(n, ast.Call) and ((isinstance(n.func, ast.Attribute) and n.func.attr in ("sort", "reverse", "insert", "pop", "remove", "append", "extend") and isinstance(n.func.value, ast.Name) and n.func.value.id == listname) or (isinstance(n.func, ast.Name) and n.func.id in ("sorted", "reversed", "set", "frozenset")))]
    run.instance("R06.5", f"{m.relpath}:{fi.node.lineno}", "get_schema_search_paths: returns its ordered candidate list as written (at most filtered in place; no sort/set/reverse)", ok=not reorder)
    if reorder:
        run.violation("R06.5", m, fi.qualname, reorder[0], "the schema search paths are reordered after being collected: priority (packaged before cwd-relative) then depends on path spelling, i.e. on where the process was started")

    def origin(e: ast.AST) -> str:
        srcs = set()
        texts = [ast.unparse(e)]
        for nm in {x.id for x in ast.walk(e) if isinstance(x, ast.Name)}:
            texts += [ast.unparse(n.value) for n in walk_no_nested(fi.node) if isinstance(n, ast.Assign) and any(isinstance(t, ast.Name) and t.id == nm for t in n.targets)]
        for txt in texts:
            if "__file__" in txt:
                srcs.add("package")
            if "cwd" in txt or "environ" in txt or "home" in txt:
                srcs.add("ambient")
        return "+".join(sorted(srcs)) or "unknown"

    origins = [origin(e) for e in v.elts]
    ok = origins[0] == "package" and "unknown" not in origins
    run.instance("R06.5", f"{m.relpath}:{fi.node.lineno}", f"get_schema_search_paths: candidate order by origin = {origins}", ok=ok)
    if not ok:
        run.violation("R06.5", m, fi.qualname, v.elts[0], f"the schema search order does not start with the packaged directory (origins in order: {origins}): a schema file in the working directory could shadow the packaged schema of the same name")
    return True


def _r06_5(run: Run, res: Resolver) -> None:
    m = run.project.mod("schemas.loader")
    fi = m.func("get_schema_search_paths")
    appends = []
    for n in walk_no_nested(fi.node):
        if isinstance(n, ast.Call) and isinstance(n.func, ast.Attribute) and n.func.attr in ("append", "insert", "extend") and isinstance(n.func.value, ast.Name):
            appends.append(n)
    appends.sort(key=lambda n: (n.lineno, n.col_offset))
    if not appends:
        if _r06_5_literal(run, m, fi):
            return
        raise AnalysisError("get_schema_search_paths: no append found")

    def origin(call: ast.Call) -> str:
        arg = call.args[-1] if call.args else None
        names = {x.id for x in ast.walk(arg) if isinstance(x, ast.Name)} if arg is not None else set()
        srcs = set()
        for nm in names:
            for n in walk_no_nested(fi.node):
                if isinstance(n, ast.Assign) and any(isinstance(t, ast.Name) and t.id == nm for t in n.targets):
                    txt = ast.unparse(n.value)
                    if "__file__" in txt:
                        srcs.add("package")
                    if "cwd" in txt or "getcwd" in txt or "environ" in txt or "home" in txt:
                        srcs.add("ambient")
        if arg is not None:
            txt = ast.unparse(arg)
            if "__file__" in txt:
                srcs.add("package")
            if "cwd" in txt or "environ" in txt:
                srcs.add("ambient")
        return "+".join(sorted(srcs)) or "unknown"

    listname = appends[0].func.value.id  # type: ignore[union-attr]
    rets = [n for n in walk_no_nested(fi.node) if isinstance(n, ast.Return)]
    ret_ok = bool(rets) and all(isinstance(r.value, ast.Name) and r.value.id == listname for r in rets)
    rebound = [n for n in walk_no_nested(fi.node) if isinstance(n, ast.Assign) and any(isinstance(t, ast.Name) and t.id == listname for t in n.targets)]
    reorder = [n for n in walk_no_nested(fi.node) if isinstance(n, ast.Call) and isinstance(n.func, ast.Attribute) and n.func.attr in ("sort", "reverse", "insert", "pop", "remove") and isinstance(n.func.value, ast.Name) and n.func.value.id == listname]
    run.instance("R06.5", f"{m.relpath}:{fi.node.lineno}", f"get_schema_search_paths: returns the list `{listname}` exactly as appended (no sort/set/reverse/rebinding)", ok=ret_ok and len(rebound) <= 1 and not reorder)
    if not (ret_ok and len(rebound) <= 1 and not reorder):
        bad = next((r for r in rets if not (isinstance(r.value, ast.Name) and r.value.id == listname)), None) or (reorder[0] if reorder else rebound[-1])
        run.violation("R06.5", m, fi.qualname, bad, "the schema search paths are reordered after being collected: priority (packaged before cwd-relative) then depends on path spelling, i.e. on where the process was started")
    origins = [origin(a) for a in appends]
    ok = origins[0] == "package" and all(a.func.attr == "append" for a in appends) and "unknown" not in origins
    # no insert(0, ...) that could put a cwd path first
    run.instance("R06.5", f"{m.relpath}:{fi.node.lineno}", f"get_schema_search_paths: append order by origin = {origins}", ok=ok)
    if not ok:
        run.violation("R06.5", m, fi.qualname, appends[0], f"the schema search order does not start with the packaged directory (origins in order: {origins}): a schema file in the working directory could shadow the packaged schema of the same name")


# ------------------------------------------------------------------ R06.6
def _r06_6(run: Run, res: Resolver) -> None:
    ctl = ast.parse("async def h():\n    await g()\n")
    run.control("R06.6", "embedded example `await g()` is recognised", any(isinstance(n, ast.Await) for n in ast.walk(ctl)))
    for modname, cls in TOOL_CLASSES[:4]:
        m = run.project.mod(modname)
        fi = m.func(f"{cls}.execute")
        reach = res.reachable_from([fi.fqn])
        aw = []
        for fq in sorted(reach):
            f2 = res.func_by_fqn(fq)
            for n in walk_no_nested(f2.node):
                if isinstance(n, (ast.Await, ast.AsyncFor, ast.AsyncWith)):
                    aw.append((f2, n))
        run.instance("R06.6", f"{m.relpath}:{fi.node.lineno}", f"{cls}.execute: {len(reach)} reachable function(s), {len(aw)} await point(s)", ok=not aw)
        for f2, n in aw:
            run.violation("R06.6", f2.module, f2.qualname, n, f"await point reachable from {cls}.execute: concurrently scheduled tool calls can interleave")
