"""C14 Projections only remove, and say so: no invention, honest lossy flag."""
from __future__ import annotations

import ast

from ..astmodel import AstModel
from ..fsmodel import is_name, names_in
from ..report import Run
from ..resolve import Resolver
from ..source import AnalysisError, FuncInfo, norm, walk_no_nested

# (module, function, kind) ; kind 'nodes' = dispatches on node classes of sections/children, 'values' = on value classes
CONVERTERS = [
    ("mcp.eject", "_ast_to_dict", "nodes"), ("mcp.eject", "_convert_block", "nodes"), ("mcp.eject", "_ast_to_markdown", "nodes"), ("mcp.eject", "_block_to_markdown", "nodes"),
    ("mcp.eject", "_convert_value", "values"), ("mcp.eject", "_format_markdown_value", "values"),
    ("cli.main", "_ast_to_dict", "nodes"), ("cli.main", "_ast_to_markdown", "nodes"), ("cli.main", "_block_to_markdown", "nodes"),
]
SIBLINGS = [
    (("mcp.eject", "_ast_to_dict"), ("cli.main", "_ast_to_dict")),
    (("mcp.eject", "_ast_to_markdown"), ("cli.main", "_ast_to_markdown")), (("mcp.eject", "_block_to_markdown"), ("cli.main", "_block_to_markdown")),
]
CONTENT_NODE_KINDS = ["Assignment", "Block", "Section"]  # Comment carries no key/value
VALUE_KINDS = ["ListValue", "InlineMap", "LiteralZoneValue", "HolographicValue"]
# a block nested in META is parsed into a plain dict of AST values (Parser.parse_meta_block: nested_meta) - a value kind of its own
PLAIN_VALUE_KINDS = ["dict"]


def isinstance_classes(fi: FuncInfo, _depth: int = 0, _seen: set | None = None) -> set[str]:
    out: set[str] = set()
    # the dispatch may sit in a helper of the same module that is not itself one of the listed converters (an extracted
    # `_convert_node`, a pair generator): its tests count for the caller, two levels deep
    _seen = _seen if _seen is not None else set()
    _seen.add(fi.qualname)
    listed = {q for _m, q, _k in CONVERTERS}
    if _depth < 2:
        for c in walk_no_nested(fi.node):
            if isinstance(c, ast.Call) and isinstance(c.func, ast.Name) and c.func.id not in listed and c.func.id not in _seen and fi.module.functions.get(c.func.id) is not None:
                out |= isinstance_classes(fi.module.functions[c.func.id], _depth + 1, _seen)
    for n in walk_no_nested(fi.node):
        if isinstance(n, ast.Call) and isinstance(n.func, ast.Name) and n.func.id == "isinstance" and len(n.args) == 2:
            t = n.args[1]
            elts = t.elts if isinstance(t, ast.Tuple) else ([t.left, t.right] if isinstance(t, ast.BinOp) else [t])
            for e in elts:
                if isinstance(e, ast.Name):
                    out.add(e.id)
        elif isinstance(n, ast.Call) and isinstance(n.func, ast.Name) and n.func.id == "hasattr" and len(n.args) == 2 and isinstance(n.args[1], ast.Constant) and n.args[1].value == "children":
            out.update({"Block", "Section"})
        elif isinstance(n, ast.Compare) and len(n.ops) == 1 and isinstance(n.ops[0], (ast.Is, ast.Eq)) and isinstance(n.left, ast.Call) and isinstance(n.left.func, ast.Name) and n.left.func.id == "type" and len(n.left.args) == 1 and isinstance(n.comparators[0], ast.Name):
            # `type(v) is C` (what a type-keyed dispatch table does): a branch for C itself - the value classes are leaf
            # dataclasses and the parser's nested-META dicts are plain dicts
            out.add(n.comparators[0].id)
        elif isinstance(n, ast.Compare) and len(n.ops) == 1 and isinstance(n.ops[0], ast.In) and isinstance(n.left, ast.Call) and isinstance(n.left.func, ast.Name) and n.left.func.id == "type" and isinstance(n.comparators[0], (ast.Tuple, ast.List, ast.Set)):
            out.update(e.id for e in n.comparators[0].elts if isinstance(e, ast.Name))
    return out


def _correlated_projection(run, pj, pf: FuncInfo, pdoc: str) -> bool:
    """the data-driven spelling of project(): ONE result construction in which the projected document and the lossy flag are
    decided by the same condition -
        filtered = <doc> if C else <filter>(<doc>, ...)      lossy = not C      output = emit(filtered)
    and every row of the projection table that filters (keep is not None) names a non-empty omitted list. With run=None only
    recognises the form; with a Run records instances / violations of R14.2."""
    from ..pathstate import conjuncts

    cons = [n for n in walk_no_nested(pf.node) if isinstance(n, ast.Call) and ast.unparse(n.func) == "ProjectionResult"]
    if len(cons) != 1:
        return False
    kw = {k.arg: k.value for k in cons[0].keywords}
    fd, lossy, out, om = kw.get("filtered_doc"), kw.get("lossy"), kw.get("output"), kw.get("fields_omitted")
    if not isinstance(fd, ast.Name):
        return False
    defs = [a.value for a in walk_no_nested(pf.node) if isinstance(a, ast.Assign) and any(is_name(t, fd.id) for t in a.targets)]
    if len(defs) != 1 or not isinstance(defs[0], ast.IfExp):
        return False
    ife = defs[0]
    if is_name(ife.body, pdoc):
        same_when = conjuncts(ife.test, True)
    elif is_name(ife.orelse, pdoc):
        same_when = conjuncts(ife.test, False)
    else:
        return False
    if run is None:
        return True
    other = ife.orelse if is_name(ife.body, pdoc) else ife.body
    filt_ok = isinstance(other, ast.Call) and ast.unparse(other.func) == "_filter_fields" and other.args and is_name(other.args[0], pdoc)
    lossy_ok = lossy is not None and set(conjuncts(lossy, False)) == set(same_when) and bool(same_when)
    out_ok = out is not None and ast.unparse(out) == f"emit({fd.id})"
    ok = filt_ok and lossy_ok and out_ok
    run.instance("R14.2", pj.loc(cons[0]), f"project: one construction; the input document is passed through exactly when `{' and '.join(same_when)}`, lossy is the negation of that, output is emit(<that document>)", ok=ok)
    if not ok:
        run.violation("R14.2", pj, pf.qualname, cons[0], f"the projected document and the lossy flag are not decided by the same condition (filter call ok={filt_ok}, lossy is the negation of the pass-through condition={lossy_ok}, output=emit(projected)={out_ok}): a view that leaves things out can claim to be complete")
    # table rows: a row that filters names what it omits
    rows_ok, n_rows = True, 0
    spec_fields = None
    for nm in {x.id for x in walk_no_nested(pf.node) if isinstance(x, ast.Name)}:
        if pj.has_const(nm) and isinstance(pj.const_node(nm), (ast.Tuple, ast.List)):
            for r in pj.const_node(nm).elts:
                if isinstance(r, ast.Call) and isinstance(r.func, ast.Name) and r.func.id in pj.classes:
                    from ..inline import record_fields

                    spec_fields = record_fields(pj.classes[r.func.id].node) or []
                    vals = dict(zip(spec_fields, r.args))
                    vals.update({k.arg: k.value for k in r.keywords})
                    keepv, omv = vals.get("keep"), vals.get("omitted")
                    n_rows += 1
                    filters = not (isinstance(keepv, ast.Constant) and keepv.value is None)
                    om_f = run.project.try_fold(pj, omv) if omv is not None else None
                    if filters and not (isinstance(om_f, (tuple, list)) and len(om_f) > 0):
                        rows_ok = False
    run.instance("R14.2", pj.loc(pf.node), f"project: {n_rows} table row(s); every row that filters names a non-empty omitted list", ok=rows_ok and n_rows >= 3)
    if not (rows_ok and n_rows >= 3):
        run.violation("R14.2", pj, pf.qualname, "projection table rows", "a projection that filters reports an empty fields_omitted (or the table was not recognised)")
    run.instance("R14.2", pj.loc(cons[0]), f"project: fields_omitted is taken from the selected row ({ast.unparse(om) if om is not None else None})", ok=om is not None and "omitted" in ast.unparse(om))
    return True


def json_converters_exhaustive(project, res: Resolver) -> tuple[bool, str]:
    """premise of C20 R20.5's exemption for json.dumps / yaml.dump in the eject tool: the JSON-side converters of mcp.eject have a
    branch for every node kind and every value kind (the same sets R14.1 requires), so that their result contains only plain
    JSON types. Returns (holds, what is missing)."""
    m = project.mod("mcp.eject")
    missing = []
    for qual, kind in (("_ast_to_dict", "nodes"), ("_convert_block", "nodes"), ("_convert_value", "values")):
        if not m.has_func(qual):
            return False, f"{qual} not found"
        fi = m.func(qual)
        cl = isinstance_classes(delegate_of(fi, res) or fi)
        # dispatch through a type-keyed table of the module (`TABLE.get(type(v))` / `for cls, f in TABLE`) counts as its keys
        for nm in {x.id for x in walk_no_nested(fi.node) if isinstance(x, ast.Name)}:
            if m.has_const(nm):
                try:
                    t = m.const_node(nm)
                except Exception:  # noqa: BLE001
                    continue
                if isinstance(t, ast.Dict):
                    cl |= {k.id for k in t.keys if isinstance(k, ast.Name)}
                elif isinstance(t, (ast.Tuple, ast.List)):
                    cl |= {r.elts[0].id for r in t.elts if isinstance(r, ast.Tuple) and r.elts and isinstance(r.elts[0], ast.Name)}
        need = CONTENT_NODE_KINDS if kind == "nodes" else VALUE_KINDS + PLAIN_VALUE_KINDS
        missing += [f"{qual}: {k}" for k in need if k not in cl]
    return (not missing), ", ".join(missing)


def delegate_of(fi: FuncInfo, res: Resolver) -> FuncInfo | None:
    """wrapper idiom: a function whose body is only (imports and) one call `[return] impl(<its own parameters>)` IS impl"""
    body = [s for s in fi.node.body if not (isinstance(s, ast.Expr) and isinstance(s.value, ast.Constant)) and not isinstance(s, (ast.Import, ast.ImportFrom))]  # type: ignore[attr-defined]
    if len(body) != 1:
        return None
    st = body[0]
    call = st.value if isinstance(st, (ast.Return, ast.Expr)) else None
    if not isinstance(call, ast.Call):
        return None
    params = [a.arg for a in fi.node.args.args]  # type: ignore[attr-defined]
    if [ast.unparse(a) for a in call.args] != params or call.keywords:
        return None
    for c in res.resolve_call(fi, call):
        if c.kind == "repo" and c.func is not None and c.func is not fi:
            return c.func
    return None


def check_plain_emit_and_elementwise(run: Run) -> None:
    run.rule("R14.6", "every OCTAVE rendering produced by project() is the plain canonical emission of the (projected) document: emit(<doc>) with one argument and no format options (post-emission formatting rewrites lines inside literal zones)", 1)
    run.rule("R14.7", "list values are converted element by element: the ListValue branch of each value converter returns one output element per item of value.items (a comprehension over .items without filter), never a merge of the items", 2)
    pj = run.project.mod("core.projector")
    fi = pj.func("project")
    n = 0
    for c in walk_no_nested(fi.node):
        if isinstance(c, ast.Call) and ast.unparse(c.func) == "emit":
            n += 1
            ok = len(c.args) == 1 and not c.keywords
            run.instance("R14.6", pj.loc(c), f"project: `{norm(c)}`", ok=ok)
            if not ok:
                run.violation("R14.6", pj, "project", f"emit with options: {norm(c)[:60]}", f"project() renders with `{norm(c)[:70]}`: format options post-process the emitted text line by line (trailing whitespace, blank-line squeezing, blank lines before §-looking lines) including the content of literal zones, so this rendering shows values the document does not have while reporting lossy=false, and disagrees with the JSON/YAML renderings")
    if n < 1:
        raise AnalysisError("project(): no emit() call found")
    ej = run.project.mod("mcp.eject")
    for q in ("_convert_value", "_format_markdown_value"):
        f2 = ej.func(q)
        branches = [b for b in walk_no_nested(f2.node) if isinstance(b, ast.If) and ("isinstance" in ast.unparse(b.test) or "type(" in ast.unparse(b.test)) and "ListValue" in ast.unparse(b.test)]
        if not branches:
            raise AnalysisError(f"{q}: ListValue branch not found")
        for b in branches:
            comps = [x for st in b.body for x in ast.walk(st) if isinstance(x, (ast.ListComp, ast.GeneratorExp))]
            elementwise = [x for x in comps if len(x.generators) == 1 and ast.unparse(x.generators[0].iter).endswith(".items") and not x.generators[0].ifs]
            merges = [x for st in b.body for x in ast.walk(st) if isinstance(x, ast.Call) and isinstance(x.func, ast.Attribute) and x.func.attr in ("update", "setdefault") or isinstance(x, ast.DictComp)]
            rets = [x for st in b.body for x in ast.walk(st) if isinstance(x, ast.Return)]
            ok = bool(elementwise) and not merges and len(rets) == 1
            run.instance("R14.7", ej.loc(b), f"{q}: ListValue branch: {len(elementwise)} element-wise comprehension(s), {len(merges)} merge operation(s), {len(rets)} return(s)", ok=ok)
            if not ok:
                run.violation("R14.7", ej, q, "ListValue branch is not element-wise", f"the ListValue branch of {q} does not map value.items one to one (merge operations: {len(merges)}, returns: {len(rets)}): items are merged or dropped - e.g. [REGEX::\"a\", REGEX::\"b\"] collapses to one key - while the projection reports lossy=false")


def check(run: Run) -> None:
    res = Resolver(run.project)
    am = AstModel(run.project)
    run.rule("R14.1", "exhaustive converters: every format converter has a branch for every node kind that carries keys/values (Assignment, Block, Section) or every value kind (ListValue, InlineMap, LiteralZoneValue, HolographicValue, and the plain dict a block nested in META is parsed into)", 24)
    run.rule("R14.2", "honest lossy flag: in project(), whenever the projected document is not the input document itself, lossy is the constant True; otherwise the input document is passed through unchanged", 3)
    run.rule("R14.3", "no invention: the projector builds nodes only with dataclasses.replace(node, children=...) / replace(doc, sections=...), appends only existing or so-rebuilt nodes and writes no field", 6)
    run.rule("R14.4", "sibling agreement: the MCP and CLI copies of each converter dispatch on the same kinds", 3)
    run.rule("R14.5", "the eject tool returns lossy / fields_omitted from the projection result and feeds every content format from the same projected document", 8)

    # node kinds really produced by the parser (classes constructed in parser.py)
    pm = run.project.mod("core.parser")
    produced = set()
    for fi in pm.functions.values():
        for call, cls in am.constructions(fi):
            produced.add(cls)
    for k in CONTENT_NODE_KINDS + VALUE_KINDS:
        if k not in produced:
            raise AnalysisError(f"node/value kind {k} is not constructed anywhere in parser.py (model out of date)")
    run.extra["kinds_constructed_by_parser"] = sorted(produced)
    pmb = pm.func("Parser.parse_meta_block")
    if not any(isinstance(n, ast.AnnAssign) and isinstance(n.target, ast.Name) and "dict" in ast.unparse(n.annotation) and any(isinstance(a, ast.Assign) and isinstance(a.targets[0], ast.Subscript) and ast.unparse(a.value) == n.target.id for a in walk_no_nested(pmb.node)) for n in walk_no_nested(pmb.node)):
        raise AnalysisError("parse_meta_block no longer stores a nested block as a plain dict (model out of date)")

    # ---------------------------------------------------------------- R14.1
    classes: dict[tuple[str, str], set[str]] = {}
    for modname, qual, kind in CONVERTERS:
        m = run.project.mod(modname)
        fi = m.func(qual)
        impl = delegate_of(fi, res)
        if impl is not None:
            run.note(f"{m.relpath}:{qual} is a pure wrapper of {impl.fqn}: analysed as that function")
        cl = isinstance_classes(impl or fi)
        classes[(modname, qual)] = cl
        need = CONTENT_NODE_KINDS if kind == "nodes" else VALUE_KINDS + PLAIN_VALUE_KINDS
        for k in need:
            ok = k in cl
            run.instance("R14.1", m.loc(fi.node), f"{qual}: branch for {k}", ok=ok)
            if not ok:
                what = ("everything under a §N::NAME section marker is absent from this format although the projection reports lossy=false" if k == "Section" else
                        "a holographic value falls through to the identity branch and makes json.dumps raise TypeError / leaks a Python repr" if k == "HolographicValue" else
                        "a literal zone falls through to the identity branch (TypeError in json.dumps / Python repr in the output)" if k == "LiteralZoneValue" else
                        "a block nested in META (plain dict of AST values) falls through to the identity branch: its ListValue / InlineMap members make json.dumps raise TypeError and leak python objects into YAML / Markdown" if k == "dict" else
                        f"{k} content is dropped by this converter")
                run.violation("R14.1", m, qual, f"no branch for {k}", f"{qual} has no branch for {k}: {what}", line=fi.node.lineno)

    # converters discovered by shape: any function reachable from the eject entry points that walks .children / .sections and
    # dispatches on node classes is a converter too (catches helpers added next to the listed ones)
    listed = {(run.project.mod(mn).name, q) for mn, q, _ in CONVERTERS}
    roots = ["octave_mcp.mcp.eject:EjectTool.execute", "octave_mcp.cli.main:eject"]
    for fq in sorted(res.reachable_from(roots)):
        fi = res.func_by_fqn(fq)
        if not (fi.module.name.endswith("mcp.eject") or fi.module.name.endswith("cli.main")) or (fi.module.name, fi.qualname) in listed:
            continue
        walks = [n for n in walk_no_nested(fi.node) if isinstance(n, (ast.For, ast.comprehension)) and isinstance(n.iter, ast.Attribute) and n.iter.attr in ("children", "sections")]
        cl = isinstance_classes(fi)
        if walks and cl & {"Assignment", "Block", "Section"}:
            for k in CONTENT_NODE_KINDS:
                ok = k in cl
                run.instance("R14.1", fi.module.loc(fi.node), f"{fi.qualname} (converter by shape): branch for {k}", ok=ok)
                if not ok:
                    run.violation("R14.1", fi.module, fi.qualname, f"no branch for {k}", f"{fi.qualname} walks child nodes for an output format but has no branch for {k}: that content is dropped from the rendering while the projection reports lossy=false", line=fi.node.lineno)

    # every single walk over child nodes that dispatches on its element's class is exhaustive on its own (a second, partial
    # walk inside a converter - written out, or read in place from an extracted helper - drops the kinds it does not name)
    for fq in sorted(res.reachable_from(roots)):
        fi = res.func_by_fqn(fq)
        if not (fi.module.name.endswith("mcp.eject") or fi.module.name.endswith("cli.main")):
            continue
        for w in [n for n in ast.walk(fi.node) if isinstance(n, (ast.For, ast.ListComp, ast.GeneratorExp, ast.SetComp, ast.DictComp))]:
            gens = [w] if isinstance(w, ast.For) else w.generators
            for g in gens:
                if not (isinstance(g.iter, ast.Attribute) and g.iter.attr in ("children", "sections") and isinstance(g.target, ast.Name)):
                    continue
                var = g.target.id
                scope = ast.Module(body=w.body, type_ignores=[]) if isinstance(w, ast.For) else w
                kinds: set[str] = set()
                for n in ast.walk(scope):
                    if isinstance(n, ast.Call) and isinstance(n.func, ast.Name) and n.func.id == "isinstance" and len(n.args) == 2 and is_name(n.args[0], var):
                        t = n.args[1]
                        elts = t.elts if isinstance(t, ast.Tuple) else ([t.left, t.right] if isinstance(t, ast.BinOp) else [t])
                        kinds |= {e.id for e in elts if isinstance(e, ast.Name)}
                    if isinstance(n, ast.Call) and isinstance(n.func, ast.Name) and n.func.id == "hasattr" and len(n.args) == 2 and is_name(n.args[0], var) and isinstance(n.args[1], ast.Constant) and n.args[1].value == "children":
                        kinds |= {"Block", "Section"}
                if not (kinds & {"Assignment", "Block", "Section"}):
                    continue  # no dispatch on the element here (e.g. handed to a converter as a whole)
                missing = [k for k in CONTENT_NODE_KINDS if k not in kinds]
                run.instance("R14.1", fi.module.loc(w), f"{fi.qualname}: walk over .{g.iter.attr} dispatches on {sorted(kinds)}", ok=not missing)
                if missing:
                    run.violation("R14.1", fi.module, fi.qualname, f"walk over {ast.unparse(g.iter)} without {', '.join(missing)}", f"{fi.qualname} renders the elements of `{ast.unparse(g.iter)}` but only those of kind {sorted(kinds)}: {', '.join(missing)} content below this point is dropped from the rendering while the projection reports lossy=false", line=getattr(w, "lineno", fi.node.lineno))

    # ---------------------------------------------------------------- R14.10
    run.rule("R14.10", "the serialisers write what the converters produced: a custom YAML Dumper / representer or JSON encoder / default= hook used by the eject tool or the CLI does not rewrite strings (no strip / rstrip / replace / splitlines / expandtabs / case or re.sub call in it): a hook that changes a string - e.g. strips line ends to get block scalars - puts a value into one rendering that the source and the other renderings do not have", 2)
    REWRITERS = {"strip", "rstrip", "lstrip", "replace", "splitlines", "expandtabs", "lower", "upper", "title", "casefold", "translate", "sub", "subn", "dedent", "normalize", "encode", "decode", "zfill", "center", "ljust", "rjust"}

    def rewrites(node: ast.AST) -> list[str]:
        return sorted({c.func.attr for c in ast.walk(node) if isinstance(c, ast.Call) and isinstance(c.func, ast.Attribute) and c.func.attr in REWRITERS})

    n10 = 0
    for mod in run.project.modules.values():
        hooks_by_name: dict[str, ast.AST] = {}
        for c0 in ast.walk(mod.tree):
            if isinstance(c0, ast.ClassDef) and any("Dumper" in ast.unparse(b) or "JSONEncoder" in ast.unparse(b) for b in c0.bases):
                hooks_by_name[c0.name] = c0
            if isinstance(c0, (ast.FunctionDef, ast.Lambda)) and isinstance(c0, ast.FunctionDef):
                hooks_by_name.setdefault(c0.name, c0)
        class _Top:  # module-level statements (a representer is usually registered at import time)
            qualname = "<module>"
            node = ast.Module(body=[st for st in mod.tree.body if not isinstance(st, (ast.FunctionDef, ast.AsyncFunctionDef, ast.ClassDef))], type_ignores=[])

        for fi in list(mod.functions.values()) + [_Top]:
            for c in (walk_no_nested(fi.node) if fi is not _Top else ast.walk(fi.node)):
                if not isinstance(c, ast.Call):
                    continue
                fn = ast.unparse(c.func)
                if fn.split(".")[-1] in ("add_representer", "add_multi_representer") and len(c.args) >= 2:
                    n10 += 1
                    target = hooks_by_name.get(ast.unparse(c.args[1]).split(".")[-1])
                    rw = rewrites(target) if target is not None else ["<representer not found in this module>"]
                    run.instance("R14.10", mod.loc(c), f"{fi.qualname}: `{norm(c)[:70]}`", ok=not rw)
                    if rw:
                        run.violation("R14.10", mod, fi.qualname, c, f"the registered YAML representer rewrites strings ({', '.join(rw)}): the YAML rendering contains a value the source and the other renderings do not have")
                if fn.split(".")[-1] in ("dumps", "dump", "safe_dump", "dump_all") and fn.split(".")[0] in ("json", "yaml", "json_module", "yaml_module") and (mod.name.endswith("mcp.eject") or mod.name.endswith("cli.main")):
                    n10 += 1
                    bad: list[str] = []
                    for k in c.keywords:
                        if k.arg in ("Dumper", "cls", "default"):
                            target = hooks_by_name.get(ast.unparse(k.value).split(".")[-1])
                            if target is None and ast.unparse(k.value) not in ("yaml.SafeDumper", "yaml.Dumper", "yaml.CSafeDumper", "str", "None"):
                                bad.append(f"{k.arg}={ast.unparse(k.value)} (not readable here)")
                            elif target is not None and rewrites(target):
                                bad.append(f"{k.arg}={ast.unparse(k.value)} rewrites strings with {', '.join(rewrites(target))}")
                    run.instance("R14.10", mod.loc(c), f"{fi.qualname}: `{norm(c)[:80]}`", ok=not bad)
                    if bad:
                        run.violation("R14.10", mod, fi.qualname, c, f"`{norm(c)[:80]}` serialises through a hook that changes strings: {'; '.join(bad)} - the rendering then contains leaves the source does not have, while canonical / authoring report lossy=false")
    if n10 == 0:
        raise AnalysisError("no json.dumps / yaml.dump call found in mcp.eject / cli.main")

    # ---------------------------------------------------------------- R14.9
    from .c04 import check_bool_keyed_tables

    check_bool_keyed_tables(run, "R14.9")

    # ---------------------------------------------------------------- R14.8
    run.rule("R14.8", "no field is dropped because of its VALUE: in the JSON/Markdown converters nothing that came out of a value / node conversion is tested for None or truthiness to decide whether the key is kept (KEY::null, empty strings and empty lists are content)", 1)
    conv_names = {q for _m, q, _k in CONVERTERS} | {f.name for f in run.project.mod("mcp.eject").functions.values() if f.name.startswith("_convert")}
    n8 = 0
    for fq in sorted(res.reachable_from(roots)):
        fi = res.func_by_fqn(fq)
        if not (fi.module.name.endswith("mcp.eject") or fi.module.name.endswith("cli.main")):
            continue
        # names that hold a converted value: bound from a converter call, directly or as a tuple element of a generator of such
        holds: set[str] = set()
        for x in ast.walk(fi.node):
            if isinstance(x, ast.Assign) and len(x.targets) == 1 and isinstance(x.targets[0], ast.Name) and isinstance(x.value, ast.Call) and isinstance(x.value.func, ast.Name) and x.value.func.id in conv_names:
                holds.add(x.targets[0].id)
            if isinstance(x, ast.comprehension) and isinstance(x.target, ast.Tuple):
                src = x.iter
                if isinstance(src, ast.Name):
                    ds = [a.value for a in walk_no_nested(fi.node) if isinstance(a, ast.Assign) and any(is_name(t, src.id) for t in a.targets)]
                    src = ds[0] if len(ds) == 1 else src
                if isinstance(src, (ast.GeneratorExp, ast.ListComp)) and isinstance(src.elt, ast.Tuple) and len(src.elt.elts) == len(x.target.elts):
                    for t, e in zip(x.target.elts, src.elt.elts):
                        if isinstance(t, ast.Name) and isinstance(e, ast.Call) and isinstance(e.func, ast.Name) and e.func.id in conv_names:
                            holds.add(t.id)
        tests = []
        for x in ast.walk(fi.node):
            conds = list(x.ifs) if isinstance(x, ast.comprehension) else [x.test] if isinstance(x, (ast.If, ast.IfExp)) else []
            for c in conds:
                for y in ast.walk(c):
                    bad = (isinstance(y, ast.Compare) and len(y.ops) == 1 and isinstance(y.ops[0], (ast.Is, ast.IsNot, ast.Eq, ast.NotEq)) and isinstance(y.left, ast.Name) and y.left.id in holds and isinstance(y.comparators[0], ast.Constant) and y.comparators[0].value is None) or (y is c and isinstance(y, ast.Name) and y.id in holds) or (isinstance(y, ast.UnaryOp) and isinstance(y.op, ast.Not) and isinstance(y.operand, ast.Name) and y.operand.id in holds)
                    if bad:
                        # a decision about a KEY: what the test controls puts the held value under a key / into a sequence
                        # (`d[k] = v`, `{k: v}`, `.append(..v..)`, the element of a comprehension). A test of a whole rendering
                        # (`if serialized is not None: return result(serialized)`) keeps or drops no key.
                        nm = next((z.id for z in ast.walk(y) if isinstance(z, ast.Name) and z.id in holds), None)
                        region = [x.body] if isinstance(x, ast.IfExp) else (list(x.body) if isinstance(x, ast.If) else [getattr(x, "_parent", x)])
                        keyed = False
                        for r in region:
                            for z in ast.walk(r):
                                if isinstance(z, ast.Assign) and any(isinstance(t, ast.Subscript) for t in z.targets) and any(isinstance(w, ast.Name) and w.id == nm for w in ast.walk(z.value)):
                                    keyed = True
                                if isinstance(z, (ast.Dict, ast.DictComp, ast.ListComp, ast.GeneratorExp)) and any(isinstance(w, ast.Name) and w.id == nm for w in ast.walk(z)):
                                    keyed = True
                                if isinstance(z, ast.Call) and isinstance(z.func, ast.Attribute) and z.func.attr in ("append", "extend", "update", "setdefault") and any(isinstance(w, ast.Name) and w.id == nm for a_ in z.args for w in ast.walk(a_)):
                                    keyed = True
                        if isinstance(x, ast.comprehension):
                            keyed = True
                        if keyed:
                            tests.append(c)
        # the same decision made on the RAW value before converting it: `if not value: continue` / `if not section.value: continue`
        # in a loop over fields (null, 0, false, "" and [] are values)
        for x in ast.walk(fi.node):
            if isinstance(x, ast.If) and x.body and all(isinstance(b, (ast.Continue, ast.Pass)) for b in x.body) and not x.orelse:
                t = x.test
                neg = isinstance(t, ast.UnaryOp) and isinstance(t.op, ast.Not)
                core = t.operand if neg else t
                is_value = (isinstance(core, ast.Attribute) and core.attr == "value") or (isinstance(core, ast.Name) and core.id in ("value", "val", "v", "field_value"))
                none_test = isinstance(t, ast.Compare) and len(t.ops) == 1 and isinstance(t.ops[0], ast.Is) and isinstance(t.comparators[0], ast.Constant) and t.comparators[0].value is None and ((isinstance(t.left, ast.Attribute) and t.left.attr == "value") or (isinstance(t.left, ast.Name) and t.left.id in ("value", "val", "v")))
                if (neg and is_value) or none_test:
                    tests.append(t)
        n8 += 1
        run.instance("R14.8", fi.module.loc(fi.node), f"{fi.qualname}: {len(holds)} local(s) hold converted values; none is tested for None / truthiness", ok=not tests, nontrivial=bool(holds))
        for c in tests:
            run.violation("R14.8", fi.module, fi.qualname, c, f"`{ast.unparse(c)[:70]}` decides on the CONVERTED value whether a key is kept: a field whose value is null (or empty) is dropped from this format while the projection reports lossy=false and the other formats keep it")

    # ---------------------------------------------------------------- R14.4
    for a, b in SIBLINGS:
        ca, cb = classes[a], classes[b]
        rel = {"Assignment", "Block", "Section", "Comment"} | set(VALUE_KINDS)
        ok = (ca & rel) == (cb & rel)
        ma = run.project.mod(b[0])
        run.instance("R14.4", ma.loc(ma.func(b[1]).node), f"{a[1]} (MCP) dispatches on {sorted(ca & rel)}; {b[1]} (CLI) on {sorted(cb & rel)}", ok=ok)
        if not ok:
            run.violation("R14.4", ma, b[1], f"dispatch kinds differ from {a[0]}:{a[1]}", f"the CLI converter {b[1]} handles {sorted(cb & rel)} but its MCP sibling handles {sorted(ca & rel)}: `octave eject` and octave_eject render different leaves for the same projection",
                          line=ma.func(b[1]).node.lineno)

    # ---------------------------------------------------------------- R14.2
    pj = run.project.mod("core.projector")
    pf = pj.func("project")
    pdoc = pf.node.args.args[0].arg  # type: ignore[attr-defined]
    n_res = 0
    n_full = n_filtered = 0
    from ..cfg import CFG

    pcfg = CFG(pf.node)
    for n in walk_no_nested(pf.node):
        if isinstance(n, ast.Call) and ast.unparse(n.func) == "ProjectionResult":
            n_res += 1
            kw = {k.arg: k.value for k in n.keywords}
            fd = kw.get("filtered_doc")
            lossy = kw.get("lossy")
            out = kw.get("output")
            same = is_name(fd, pdoc)
            n_full += 1 if same else 0
            n_filtered += 0 if same else 1
            if same:
                ok = isinstance(lossy, ast.Constant) and lossy.value is False
                # output must be emit(doc) of the same document
                out_srcs: list[ast.AST] = [out] if out is not None else []
                if isinstance(out, ast.Name):
                    # every binding of the output local that reaches this construction
                    from ..cfg import reaching_assignments

                    reach: list[ast.AST] = []
                    for x in pcfg.node_for_stmt_containing(n):
                        r = reaching_assignments(pcfg, x, out.id)
                        reach = reach + r if r is not None else reach + [ast.Constant(value=None)]
                    out_srcs = [getattr(a, "value", a) for a in reach]
                ok = ok and bool(out_srcs) and all(isinstance(o, ast.Call) and ast.unparse(o) == f"emit({pdoc})" for o in out_srcs) and not any(isinstance(x, ast.Name) and x.id == pdoc and isinstance(x.ctx, ast.Store) for x in walk_no_nested(pf.node))
                run.instance("R14.2", pj.loc(n), "project: full view returns the input document itself, output emit(doc), lossy=False", ok=ok)
                if not ok:
                    run.violation("R14.2", pj, pf.qualname, n, "a non-lossy projection does not return the input document and its plain emission")
            elif _correlated_projection(None, pj, pf, pdoc):
                continue  # judged as a whole by _correlated_projection below
            else:
                fo = kw.get("fields_omitted")
                fo_ok = isinstance(fo, (ast.List, ast.Tuple)) and bool(fo.elts)
                if not fo_ok and fo is not None:
                    # `list(omitted)` / `omitted` with a local that is only ever bound to non-empty constant sequences (one per view)
                    src = fo.args[0] if isinstance(fo, ast.Call) and isinstance(fo.func, ast.Name) and fo.func.id in ("list", "tuple", "sorted") and len(fo.args) == 1 and not fo.keywords else fo
                    if isinstance(src, ast.Name):
                        vals = []
                        for a in walk_no_nested(pf.node):
                            if isinstance(a, ast.Assign) and len(a.targets) == 1:
                                t = a.targets[0]
                                if is_name(t, src.id):
                                    vals.append(a.value)
                                elif isinstance(t, ast.Tuple) and any(is_name(e, src.id) for e in t.elts):
                                    i = [is_name(e, src.id) for e in t.elts].index(True)
                                    vals.append(a.value.elts[i] if isinstance(a.value, ast.Tuple) and len(a.value.elts) == len(t.elts) else None)
                            elif isinstance(a, (ast.AugAssign, ast.AnnAssign, ast.NamedExpr, ast.For)) and any(is_name(x, src.id) and isinstance(x.ctx, ast.Store) for x in ast.walk(a.target)):
                                vals.append(None)
                        folded = [run.project.try_fold(pj, v) if v is not None else None for v in vals]
                        fo_ok = bool(folded) and all(isinstance(f, (list, tuple)) and len(f) > 0 and all(isinstance(x, str) for x in f) for f in folded)
                        if fo_ok:
                            n_filtered += len(folded) - 1  # one construction serves that many filtered views
                ok = isinstance(lossy, ast.Constant) and lossy.value is True and fo_ok
                run.instance("R14.2", pj.loc(n), f"project: filtered view (filtered_doc={norm(fd) if fd is not None else None}) reports lossy=True with a non-empty fields_omitted", ok=ok)
                if not ok:
                    run.violation("R14.2", pj, pf.qualname, n, "a projection whose document is not the input document reports lossy other than the constant True (or an empty fields_omitted): a view that leaves things out claims to be complete")
    if n_full == 0 and n_filtered == 1 and _correlated_projection(run, pj, pf, pdoc):
        n_full, n_filtered = 1, 2  # one construction serves both kinds of view, decided by one condition (checked there)
    if n_full < 1 or n_filtered < 2:
        raise AnalysisError(f"project: {n_full} full-view and {n_filtered} filtered-view ProjectionResult construction(s) found (expected >= 1 and >= 2)")
    # the keep-lists and omitted-lists are complementary constant sets
    keeps = []
    for n in walk_no_nested(pf.node):
        if isinstance(n, ast.Call) and ast.unparse(n.func) == "_filter_fields":
            for k in n.keywords:
                if k.arg == "keep":
                    keeps.append(run.project.try_fold(pj, k.value))
    run.extra["keep_sets"] = [list(k) if isinstance(k, (list, tuple)) else None for k in keeps]

    # ---------------------------------------------------------------- R14.3
    for fi in pj.functions.values():
        ws = list(am.ast_writes(fi, res))
        cons = list(am.constructions(fi))
        run.instance("R14.3", pj.loc(fi.node), f"{fi.qualname}: {len(ws)} document write(s), {len(cons)} node construction(s)", ok=not ws and not cons)
        for node, kind, fld in ws:
            run.violation("R14.3", pj, fi.qualname, node, f"the projector performs a document {kind} on `.{fld}`: a projection must not rewrite what it keeps (and must not modify the caller's document)")
        for call, cls in cons:
            run.violation("R14.3", pj, fi.qualname, call, f"the projector constructs a {cls}: projections only remove")
        own_funcs = {f.name for f in pj.functions.values()}

        def filter_result(e: ast.AST, depth: int = 0) -> bool:
            """the result of one of the projector's own (recursive) filter functions, directly or through a local"""
            if isinstance(e, ast.Call) and isinstance(e.func, ast.Name) and e.func.id in own_funcs:
                return True
            if isinstance(e, ast.Call) and isinstance(e.func, ast.Attribute) and isinstance(e.func.value, ast.Name) and e.func.value.id == "self" and e.func.attr in own_funcs:
                return True  # a method of the projector's own filter class
            if isinstance(e, (ast.ListComp,)) and len(e.generators) == 1 and filter_result(e.elt, depth + 1):
                return True  # [self.preserve(child) for child in node.children]
            if isinstance(e, ast.Call) and isinstance(e.func, ast.Attribute) and e.func.attr in own_funcs and isinstance(e.func.value, ast.Call) and isinstance(e.func.value.func, ast.Name) and e.func.value.func.id in pj.classes:
                return True  # _FieldFilter(keep).prune(doc.sections): a method of the projector's own filter class on a fresh instance
            if isinstance(e, ast.Name) and depth < 3:
                # bound by a walrus in a test: `(kept := self.prune(node.children))`
                wal = [w.value for w in walk_no_nested(fi.node) if isinstance(w, ast.NamedExpr) and is_name(w.target, e.id)]
                if wal and all(filter_result(w, depth + 1) for w in wal):
                    return True
            if isinstance(e, ast.Name) and depth < 3:
                defs = [a.value for a in walk_no_nested(fi.node) if isinstance(a, ast.Assign) and any(is_name(t, e.id) for t in a.targets)]
                if bool(defs) and all(filter_result(d, depth + 1) for d in defs):
                    return True
                # a local list filled in a loop: starts empty, and every element put into it is a node of the input as it is, a
                # copy made by one of the projector's own functions, or `replace(<node>, children=<filter result>)`
                inits = [a.value for a in walk_no_nested(fi.node) if isinstance(a, (ast.Assign, ast.AnnAssign)) and a.value is not None and any(is_name(t, e.id) for t in (a.targets if isinstance(a, ast.Assign) else [a.target]))]
                adds = [c for c in walk_no_nested(fi.node) if isinstance(c, ast.Call) and isinstance(c.func, ast.Attribute) and c.func.attr in ("append", "extend") and is_name(c.func.value, e.id) and len(c.args) == 1]
                loop_vars = {x.id for lp in walk_no_nested(fi.node) if isinstance(lp, ast.For) for x in ast.walk(lp.target) if isinstance(x, ast.Name)}

                def element_ok(a: ast.AST) -> bool:
                    if isinstance(a, ast.Name) and a.id in loop_vars:
                        return True
                    if filter_result(a, depth + 1):
                        return True
                    if isinstance(a, ast.Call) and ast.unparse(a.func) in ("replace", "dataclasses.replace") and len(a.args) == 1 and isinstance(a.args[0], ast.Name) and a.args[0].id in loop_vars and {k.arg for k in a.keywords} <= {"children"} and all(filter_result(k.value, depth + 1) for k in a.keywords):
                        return True
                    return False

                if inits and all(isinstance(i_, ast.List) and not i_.elts for i_ in inits) and adds and all(element_ok(c.args[0]) for c in adds):
                    return True
                return False
            return False

        returned = {r.value.id for r in walk_no_nested(fi.node) if isinstance(r, ast.Return) and isinstance(r.value, ast.Name)}
        for n in walk_no_nested(fi.node):
            if isinstance(n, ast.Call) and ast.unparse(n.func) in ("replace", "dataclasses.replace"):
                kws = {k.arg for k in n.keywords}
                ok = kws <= {"children", "sections"} and len(n.args) == 1 and isinstance(n.args[0], ast.Name)
                # the replacement value is the result of the (recursive) filter
                for k in n.keywords:
                    ok = ok and filter_result(k.value)
                run.instance("R14.3", pj.loc(n), f"{fi.qualname}: `{norm(n)}` replaces only the child list, with the filter's result", ok=ok)
                if not ok:
                    run.violation("R14.3", pj, fi.qualname, n, "dataclasses.replace in the projector changes something other than children/sections, or sets them to something that is not the recursive filter's result")
            if isinstance(n, ast.Call) and isinstance(n.func, ast.Attribute) and n.func.attr == "append" and isinstance(n.func.value, ast.Name) and (n.func.value.id == "filtered" or n.func.value.id in returned) and n.args:
                a = n.args[0]
                ok = isinstance(a, ast.Name) or (isinstance(a, ast.Call) and ast.unparse(a.func) in ("replace", "dataclasses.replace")) or filter_result(a)
                run.instance("R14.3", pj.loc(n), f"{fi.qualname}: `{norm(n)}` keeps an existing node or its child-filtered copy", ok=ok)
                if not ok:
                    run.violation("R14.3", pj, fi.qualname, n, "the filter appends something that is neither an existing node nor replace(node, children=...)")
    # the keep test is by key membership in the set made from the caller's keep list: exactly one such test in the module
    tests = []
    for fi in pj.functions.values():
        params = {a.arg for a in fi.node.args.args}  # type: ignore[attr-defined]
        from_param = {a.targets[0].id for a in walk_no_nested(fi.node) if isinstance(a, ast.Assign) and len(a.targets) == 1 and isinstance(a.targets[0], ast.Name) and isinstance(a.value, ast.Call) and ast.unparse(a.value.func) in ("set", "frozenset") and len(a.value.args) == 1 and isinstance(a.value.args[0], ast.Name) and a.value.args[0].id in params}
        # (a closure reads the enclosing function's set)
        outer = pj.functions.get(fi.parent_func) if fi.parent_func else None
        if outer is not None:
            oparams = {a.arg for a in outer.node.args.args}  # type: ignore[attr-defined]
            from_param |= {a.targets[0].id for a in walk_no_nested(outer.node) if isinstance(a, ast.Assign) and len(a.targets) == 1 and isinstance(a.targets[0], ast.Name) and isinstance(a.value, ast.Call) and ast.unparse(a.value.func) in ("set", "frozenset") and len(a.value.args) == 1 and isinstance(a.value.args[0], ast.Name) and a.value.args[0].id in oparams}
        for n in walk_no_nested(fi.node):
            if isinstance(n, ast.Compare) and len(n.ops) == 1 and isinstance(n.ops[0], (ast.In, ast.NotIn)) and ast.unparse(n.left).endswith(".key"):
                c = n.comparators[0]
                good = isinstance(c, ast.Name) and (c.id in from_param or c.id in params)
                if not good and isinstance(c, ast.Attribute) and isinstance(c.value, ast.Name) and c.value.id == "self" and fi.cls:
                    # self.<attr> set in __init__ to set(<param>) / frozenset(<param>)
                    init = pj.functions.get(f"{fi.cls}.__init__")
                    if init is not None:
                        ip = {a.arg for a in init.node.args.args}  # type: ignore[attr-defined]
                        good = any(isinstance(a, ast.Assign) and len(a.targets) == 1 and ast.unparse(a.targets[0]) == f"self.{c.attr}" and isinstance(a.value, ast.Call) and ast.unparse(a.value.func) in ("set", "frozenset") and len(a.value.args) == 1 and isinstance(a.value.args[0], ast.Name) and a.value.args[0].id in ip for a in walk_no_nested(init.node))
                tests.append((fi, n, good))
    # no re-parenting: what a recursive filter call returns for a child's children goes back under THAT child
    # (`replace(child, children=<result>)`) or is returned - it is never spliced into the list of the level above
    for fi in pj.functions.values():
        own = {f.name for f in pj.functions.values()}
        loop_vars = {x.id for lp in walk_no_nested(fi.node) if isinstance(lp, ast.For) for x in ast.walk(lp.target) if isinstance(x, ast.Name)}
        for c in walk_no_nested(fi.node):
            if isinstance(c, ast.Call) and isinstance(c.func, ast.Attribute) and c.func.attr in ("extend", "__iadd__") and len(c.args) == 1:
                a = c.args[0]
                inner = a.args[0] if isinstance(a, ast.Call) and isinstance(a.func, ast.Name) and a.func.id in ("list", "tuple") and a.args else a
                if isinstance(inner, ast.Call) and ((isinstance(inner.func, ast.Name) and inner.func.id in own) or (isinstance(inner.func, ast.Attribute) and inner.func.attr in own)) and inner.args and any(isinstance(x, ast.Name) and x.id in loop_vars for x in ast.walk(inner.args[0])):
                    run.instance("R14.3", pj.loc(c), f"{fi.qualname}: `{norm(c)[:70]}` splices the filtered children of an element into the level above", ok=False)
                    run.violation("R14.3", pj, fi.qualname, c, "what survives below a node that is not kept is spliced into its parent's list instead of staying under that node: kept fields change their place in the document (a projection may only remove)")
    ok = len(tests) >= 1 and all(t[2] for t in tests)  # (the same test may be written at the top level and in the recursive step)
    where = next((t[0] for t in tests if not t[2]), tests[0][0]) if tests else pj.func("_filter_fields")
    run.instance("R14.3", pj.loc(where.node), f"{where.qualname}: a node is kept when node.key is in the set made from the keep list ({len(tests)} membership test(s))", ok=ok)
    if not ok:
        run.violation("R14.3", pj, where.qualname, "node.key in keep_set", "the projector's keep test is no longer one membership test of the node's key in the set made from the caller's keep list")

    # ---------------------------------------------------------------- R14.5
    for modname, qual in (("mcp.eject", "EjectTool.execute"), ("cli.main", "eject")):
        m = run.project.mod(modname)
        fi = m.func(qual)
        resvar = None
        for n in walk_no_nested(fi.node):
            if isinstance(n, ast.Assign) and isinstance(n.value, ast.Call) and ast.unparse(n.value.func) == "project" and isinstance(n.targets[0], ast.Name):
                resvar = n.targets[0].id
                modekw = [k.value for k in n.value.keywords if k.arg == "mode"] + n.value.args[1:2]
                ok = bool(modekw) and isinstance(modekw[0], ast.Name)
                run.instance("R14.5", m.loc(n), f"{qual}: project(doc, mode=<the caller's mode>)", ok=ok)
                if not ok:
                    run.violation("R14.5", m, qual, n, "the projection is not computed with the caller's mode")
        if resvar is None:
            raise AnalysisError(f"{qual}: project() call not found")
        # converters get <res>.filtered_doc - here, or in a helper whose every call site passes it
        def is_projected(fn: FuncInfo, arg: ast.AST, depth: int = 0) -> bool:
            if isinstance(arg, ast.Attribute) and arg.attr == "filtered_doc" and isinstance(arg.value, ast.Name):
                return any(isinstance(a, ast.Assign) and any(is_name(t, arg.value.id) for t in a.targets) and isinstance(a.value, ast.Call) and ast.unparse(a.value.func) == "project" for a in walk_no_nested(fn.node))
            if isinstance(arg, ast.Name) and depth < 3:
                params = [a.arg for a in fn.node.args.args]  # type: ignore[attr-defined]
                if arg.id in params:
                    idx = params.index(arg.id)
                    sites = [(c2, n2) for c2 in m.functions.values() for n2 in walk_no_nested(c2.node) if isinstance(n2, ast.Call) and isinstance(n2.func, ast.Name) and n2.func.id == fn.name and c2 is not fn]
                    # ... and calls through a dispatch table: `for name, render in TABLE: ... render(x)` where a row of the
                    # module-level TABLE holds this function at the position of `render`
                    for c2 in m.functions.values():
                        for lp in walk_no_nested(c2.node):
                            if isinstance(lp, ast.For) and isinstance(lp.iter, ast.Name) and m.has_const(lp.iter.id) and isinstance(lp.target, ast.Tuple):
                                try:
                                    table = m.const_node(lp.iter.id)
                                except Exception:
                                    continue
                                if not isinstance(table, (ast.Tuple, ast.List)):
                                    continue
                                for i, t in enumerate(lp.target.elts):
                                    if isinstance(t, ast.Name) and any(isinstance(r, ast.Tuple) and i < len(r.elts) and is_name(r.elts[i], fn.name) for r in table.elts):
                                        sites += [(c2, n2) for b in lp.body for n2 in ast.walk(b) if isinstance(n2, ast.Call) and is_name(n2.func, t.id)]
                    return bool(sites) and all(is_projected(c2, (n2.args[idx] if idx < len(n2.args) else next((k.value for k in n2.keywords if k.arg == arg.id), ast.Constant(None))), depth + 1) for c2, n2 in sites)
                # local bound from <res>.filtered_doc
                binds = [a.value for a in walk_no_nested(fn.node) if isinstance(a, ast.Assign) and any(is_name(t, arg.id) for t in a.targets)]
                return bool(binds) and all(is_projected(fn, b, depth + 1) for b in binds)
            return False

        n_conv = 0
        for f2 in m.functions.values():
            if f2.name in ("_ast_to_dict", "_ast_to_markdown", "_block_to_markdown", "_convert_block", "_convert_value", "_format_markdown_value"):
                continue
            for n in walk_no_nested(f2.node):
                if isinstance(n, ast.Call) and isinstance(n.func, ast.Name) and n.func.id in ("_ast_to_dict", "_ast_to_markdown"):
                    n_conv += 1
                    ok = len(n.args) == 1 and is_projected(f2, n.args[0])
                    run.instance("R14.5", m.loc(n), f"{f2.qualname}: `{norm(n)}` converts the projected document", ok=ok)
                    if not ok:
                        run.violation("R14.5", m, f2.qualname, n, "a format converter is fed something other than the projection's filtered document: formats of one projection would contain different leaves")
        if n_conv < 2:
            raise AnalysisError(f"{m.relpath}: fewer than 2 converter call sites found")
        if modname == "mcp.eject":
            for n in walk_no_nested(fi.node):
                if isinstance(n, ast.Return) and isinstance(n.value, ast.Dict):
                    kv = {k.value: v for k, v in zip(n.value.keys, n.value.values) if isinstance(k, ast.Constant)}
                    out = kv.get("output")
                    if out is None:
                        continue
                    derived = resvar in names_in(out) or any(resvar in names_in(a.value) for nm in names_in(out) for a in walk_no_nested(fi.node) if isinstance(a, ast.Assign) and any(is_name(t, nm) for t in a.targets) and a.lineno < n.lineno) or any(
                        "data" in names_in(a.value) or resvar in names_in(a.value) for nm in names_in(out) for a in walk_no_nested(fi.node) if isinstance(a, ast.Assign) and any(is_name(t, nm) for t in a.targets) and a.lineno < n.lineno)
                    if not derived or kv.get("format") is not None:
                        continue  # template / parse error / gbnf returns: not projections of content
                    ok = ast.unparse(kv.get("lossy")) == f"{resvar}.lossy" and ast.unparse(kv.get("fields_omitted")) == f"{resvar}.fields_omitted"
                    run.instance("R14.5", m.loc(n), f"{qual}: content return carries lossy/fields_omitted of the projection result", ok=ok)
                    if not ok:
                        run.violation("R14.5", m, qual, n, "a content format's response does not report the projection's own lossy / fields_omitted")
    check_plain_emit_and_elementwise(run)
