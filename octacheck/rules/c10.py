"""C10 validation_status is always present and never overstated (typestate over every return path)."""
from __future__ import annotations

import ast

from ..absint import ABSENT, STATUSES, STATUS_KEY, TOP, Envelope, Interp
from ..cfg import CFG, branch_conditions
from ..report import Run
from ..resolve import Resolver
from ..source import AnalysisError, FuncInfo, norm, walk_no_nested

TOOLS = [
    ("mcp.validate", "ValidateTool.execute", True),  # (module, function, envelope has `valid`)
    ("mcp.write", "WriteTool.execute", False),
    ("mcp.eject", "EjectTool.execute", False),
    ("mcp.compile_grammar", "CompileGrammarTool.execute", False),
]
CLI = [("cli.main", "validate"), ("cli.main", "write")]


class Ctx:
    def __init__(self, run: Run, res: Resolver):
        self.run = run
        self.res = res
        self.cache: dict[str, list[Envelope]] = {}
        self.helpers_seen: dict[str, FuncInfo] = {}
        self.tcache: dict[str, list | None] = {}
        self.tuple_helpers: dict[str, tuple[FuncInfo, list[Envelope]]] = {}

    def helper_for(self, caller: FuncInfo, caller_it: "Interp | None" = None):
        def helper_envelopes(call: ast.Call) -> list[Envelope] | None:
            for c in self.res.resolve_call(caller, call):
                if c.kind == "repo" and c.func is not None and c.func.module.name.startswith("octave_mcp.mcp"):
                    # keys that reach the helper's **kwargs from this call site (None: not known)
                    hargs = c.func.node.args  # type: ignore[attr-defined]
                    kw_keys: set[str] | None = None
                    if hargs.kwarg is not None:
                        named = {a.arg for a in hargs.args + hargs.kwonlyargs}
                        kw_keys = set()
                        for k in call.keywords:
                            if k.arg is None:
                                ks = caller_it.spread_keys(k.value) if caller_it is not None else None
                                if ks is None:
                                    kw_keys = None
                                    break
                                kw_keys |= ks
                            elif k.arg not in named:
                                kw_keys.add(k.arg)
                    fq = c.func.fqn + ("" if hargs.kwarg is None else "|" + ("?" if kw_keys is None else ",".join(sorted(kw_keys))))
                    if fq not in self.cache:
                        self.cache[fq] = []  # recursion guard
                        it = Interp(c.func, lambda _c: None)
                        it.helper_envelopes = self.helper_for(c.func, it)  # helpers may wrap other helpers (recursion guard above)
                        it.kwarg_keys = kw_keys
                        it.run()
                        envs = []
                        for kind, node, st, payload in it.events:
                            if kind == "return":
                                if isinstance(payload, ast.Tuple):
                                    envs = None  # type: ignore[assignment]  # a tuple-returning helper: see tuples_for
                                    break
                                e = it.envelope_of_return(payload, st)
                                if e is None:
                                    envs = None  # type: ignore[assignment]
                                    break
                                envs.extend(e)
                        self.cache[fq] = sorted(set(envs), key=lambda e: e.describe()) if envs is not None else None  # type: ignore[assignment]
                        self.helpers_seen[fq] = c.func
                    return self.cache[fq]
            return None

        return helper_envelopes

    def tuples_for(self, caller: FuncInfo):
        """summary of a helper whose every return is a tuple of one fixed length: per position, whether it can be None and
        the envelopes it can be (None when some return puts anything else there)"""
        def helper_tuples(call: ast.Call):
            for c in self.res.resolve_call(caller, call):
                if c.kind == "repo" and c.func is not None and c.func.module.name.startswith("octave_mcp.mcp") and c.func.cls:
                    fq = "tuple:" + c.func.fqn
                    if fq not in self.tcache:
                        self.tcache[fq] = None
                        it = Interp(c.func, self.helper_for(c.func))
                        it.run()
                        rets = [(st, payload) for kind, node, st, payload in it.events if kind == "return"]
                        if rets and all(isinstance(pl, ast.Tuple) for _st, pl in rets) and len({len(pl.elts) for _st, pl in rets}) == 1:
                            width = len(rets[0][1].elts)
                            summ = []
                            for i in range(width):
                                maybe_none = False
                                envs: list[Envelope] | None = []
                                for st, pl in rets:
                                    el = pl.elts[i]
                                    if isinstance(el, ast.Constant) and el.value is None:
                                        maybe_none = True
                                        continue
                                    e = it.envelope_of_return(el, st)
                                    if e is None:
                                        envs = None
                                        break
                                    envs.extend(e)
                                if envs is not None:
                                    envs = sorted(set(envs), key=lambda e: e.describe())
                                    if envs:
                                        self.tuple_helpers[c.func.fqn] = (c.func, envs)
                                summ.append((maybe_none, envs))
                            self.tcache[fq] = summ
                    return self.tcache[fq]
            return None

        return helper_tuples


def _cli_status_after_changes(run: Run) -> None:
    """R10.11: the status the CLI prints is the status of the text it writes"""
    from ..cfg import CFG

    run.rule("R10.11", "`octave write` judges what it writes: in cli.main:write no call that changes the parsed document (WriteTool._apply_changes / _apply_mutations / repair on it, a store into it) is reachable AFTER the Validator pass whose verdict becomes validation_status - a status computed before the --changes delta is applied describes the file as it was, not the text written", 1)
    m = run.project.mod("cli.main")
    if not m.has_func("write"):
        raise AnalysisError("cli.main: write command not found")
    fi = m.func("write")
    cfg = CFG(fi.node)
    validates = []
    mutates = []
    for n in cfg.nodes:
        if n.ast is None or n.kind not in ("stmt", "test"):
            continue
        for c in ast.walk(n.ast):
            if isinstance(c, ast.Call) and isinstance(c.func, ast.Attribute) and c.func.attr == "validate" and c.args and isinstance(c.args[0], ast.Name):
                validates.append((n.id, c.args[0].id, c))
            if isinstance(c, ast.Call) and (ast.unparse(c.func).split(".")[-1] in ("_apply_changes", "_apply_mutations", "repair")) and c.args and isinstance(c.args[0], ast.Name):
                mutates.append((n.id, c.args[0].id, c))
        if isinstance(n.ast, ast.Assign) and any(isinstance(t, (ast.Attribute, ast.Subscript)) and isinstance(t.value, ast.Name) for t in n.ast.targets):
            t0 = next(t for t in n.ast.targets if isinstance(t, (ast.Attribute, ast.Subscript)) and isinstance(t.value, ast.Name))
            mutates.append((n.id, t0.value.id, n.ast))  # type: ignore[union-attr]
    if not validates:
        raise AnalysisError("cli.main:write: no Validator(...).validate(<doc>) call found; which text the printed status describes is not decided")
    for vid, dv, vc in validates:
        later = [(mid, mc) for mid, dm, mc in mutates if dm == dv and mid != vid and cfg.path_exists(vid, mid, {"x"})]
        run.instance("R10.11", m.loc(vc), f"write: `{norm(vc)[:60]}` is not followed by a change of `{dv}`", ok=not later)
        for mid, mc in later[:2]:
            run.violation("R10.11", m, "write", mc, f"`{norm(mc)[:70]}` changes the document after `{norm(vc)[:50]}` has judged it: with --changes the printed validation_status (and the exit code) describe the file before the delta, not the text that is written - a write that makes the document invalid is reported VALIDATED")


def check(run: Run) -> None:
    res = Resolver(run.project)
    ctx = Ctx(run, res)
    run.rule("R10.1", "every return of a tool's execute (and of its envelope helpers) yields a dict in which the key validation_status is present", 36)
    run.rule("R10.2", "every value ever stored under validation_status is one of VALIDATED / UNVALIDATED / INVALID", 20)
    run.rule("R10.3", "VALIDATED is stored only in states where the schema lookup is known to have succeeded and the validator's error list is known empty (or the LENIENT/ULTRA branch was taken)", 4)
    run.rule("R10.4", "INVALID is stored only where the error list is known non-empty; at every return with INVALID the envelope carries non-empty validation_errors (or their count) and schema_name/schema_version", 4)
    run.rule("R10.5", "valid is True exactly when validation_status is VALIDATED at every return of octave_validate", 8)
    run.rule("R10.6", "envelope helpers hard-code UNVALIDATED", 3)
    run.rule("R10.7", "schema-less validation yields no errors: every error-producing step of Validator.validate is guarded by schema presence (summary used by R10.3 for the CLI)", 3)
    run.rule("R10.9", "octave_write never reports a status for text it did not write: every non-exceptional path from a change of the document (repair(fix=True), a store into doc.meta) to the write of the temp file re-emits the written text from the document", 2)
    from .c11 import check_write_reports

    check_write_reports(run, res, None, "R10.9")
    from .c19 import check_strip_with_word

    _cli_status_after_changes(run)
    check_strip_with_word(run, "R10.10")  # an unknown schema name must stay unknown (UNVALIDATED), not collapse onto a real one
    run.assume("get_builtin_schema / load_schema_by_name are pure lookups (module state is read-only: C06 R06.3), so a repeated identical call agrees with the first")

    n_returns = 0
    for modname, qual, has_valid in TOOLS:
        fi = run.project.mod(modname).func(qual)
        it = Interp(fi, lambda _c: None)
        it.helper_envelopes = ctx.helper_for(fi, it)
        it.helper_tuples = ctx.tuples_for(fi)
        it.run()
        mod = fi.module
        n_states = sum(len(s) for s in it.in_states.values())
        run.extra.setdefault("abstract_states", {})[fi.fqn] = n_states
        ret_seen: dict[int, list] = {}
        for kind, node, st, payload in it.events:
            if kind == "return":
                ret_seen.setdefault(node.id, []).append((node, st, payload))
            elif kind == "status-store":
                var, status = payload
                _check_store(run, it, fi, node, st, status, f"{var}[{STATUS_KEY!r}]")
        # every Return statement of the function must have been reached by the interpreter or be unreachable
        all_returns = [n for n in it.cfg.nodes if isinstance(n.ast, ast.Return)]
        for rn in all_returns:
            if rn.id not in ret_seen:
                run.note(f"{mod.relpath}:{rn.lineno} return not reached by any abstract state (infeasible)")
                continue
            envs_here: list[tuple[dict, Envelope | None]] = []
            for node, st, payload in ret_seen[rn.id]:
                envs = it.envelope_of_return(payload, st)
                if envs is None:
                    envs_here.append((st, None))
                else:
                    for e in envs:
                        envs_here.append((st, e))
            n_returns += 1
            problems1 = [(st, e) for st, e in envs_here if e is None or e.status in (ABSENT,)]
            run.instance("R10.1", f"{mod.relpath}:{rn.lineno}", f"{qual}: `{norm(rn.ast)}` carries validation_status in all {len(envs_here)} abstract state(s)", ok=not problems1)
            if problems1:
                run.violation("R10.1", mod, qual, rn.ast, "a return path yields a response without validation_status (or something that is not a recognisable response envelope)",  # type: ignore[arg-type]
                              envelope=problems1[0][1].describe() if problems1[0][1] else "not an envelope")
            for st, e in envs_here:
                if e is None or e.status == ABSENT:
                    continue
                if e.status == TOP or e.status not in STATUSES:
                    run.violation("R10.2", mod, qual, rn.ast, f"validation_status at this return is not provably one of the three literals (abstract value {e.status})")  # type: ignore[arg-type]
                    break
            # R10.4 at return
            bad4 = [(st, e) for st, e in envs_here if e is not None and e.status == "INVALID" and not ((e.verrs == "N" or e.counted) and e.name and e.version)]
            if any(e is not None and e.status == "INVALID" for _, e in envs_here):
                run.instance("R10.4", f"{mod.relpath}:{rn.lineno}", f"{qual}: INVALID at `{norm(rn.ast)}` comes with non-empty validation_errors and schema name/version", ok=not bad4)
            if bad4:
                run.violation("R10.4", mod, qual, rn.ast, "a return path yields INVALID without (provably) non-empty validation_errors and schema_name/schema_version",  # type: ignore[arg-type]
                              envelope=bad4[0][1].describe())
            if has_valid:
                bad5 = [(st, e) for st, e in envs_here if e is not None and e.status in STATUSES and not ((e.valid == "T") == (e.status == "VALIDATED") and e.valid in ("T", "F"))]
                run.instance("R10.5", f"{mod.relpath}:{rn.lineno}", f"{qual}: valid <=> VALIDATED at `{norm(rn.ast)}`", ok=not bad5)
                if bad5:
                    run.violation("R10.5", mod, qual, rn.ast, "a return path yields an envelope whose `valid` does not equal (validation_status == VALIDATED)",  # type: ignore[arg-type]
                                  envelope=bad5[0][1].describe())
    run.extra["returns_analysed"] = n_returns

    # helpers: hard-coded UNVALIDATED
    for fq, envs in sorted(ctx.cache.items()):
        f = ctx.helpers_seen.get(fq)
        if f is None:
            continue
        ok = envs is not None and bool(envs) and all(e.status == "UNVALIDATED" and e.valid in ("F", ABSENT) for e in envs)
        run.instance("R10.6", f"{f.module.relpath}:{f.node.lineno}", f"{f.qualname}: every return is an envelope with validation_status UNVALIDATED", ok=ok)
        if not ok:
            run.violation("R10.6", f.module, f.qualname, "envelope helper returns", "an error-envelope helper does not hard-code validation_status UNVALIDATED (and valid False)",
                          envelopes=[e.describe() for e in envs] if envs else None)

    for fq, (f, envs) in sorted(ctx.tuple_helpers.items()):
        ok = all(e.status == "UNVALIDATED" and e.valid in ("F", ABSENT) for e in envs)
        run.instance("R10.6", f"{f.module.relpath}:{f.node.lineno}", f"{f.qualname}: every envelope in a returned tuple has validation_status UNVALIDATED", ok=ok)
        if not ok:
            run.violation("R10.6", f.module, f.qualname, "envelope helper returns", "an error-envelope helper does not hard-code validation_status UNVALIDATED (and valid False)", envelopes=[e.describe() for e in envs])

    # CLI commands: status is a local string
    def printed_status(fn: ast.AST) -> str | None:
        # the local the command prints as `validation_status: {<local>}`
        for n in walk_no_nested(fn):
            if isinstance(n, ast.JoinedStr):
                for a, b in zip(n.values, n.values[1:]):
                    if isinstance(a, ast.Constant) and str(a.value).rstrip().endswith("validation_status:") and isinstance(b, ast.FormattedValue) and isinstance(b.value, ast.Name):
                        return b.value.id
        return None

    from ..source import normalise_locals

    for modname, qual in CLI:
        fi = normalise_locals(run.project.mod(modname).func(qual), [], finders=[("validation_status", printed_status)])
        it = Interp(fi, lambda c: None)
        it.run()
        n = 0
        for kind, node, st, payload in it.events:
            if kind == "const-store" and payload[1] in STATUSES + ("VALID",) and payload[0] == "validation_status":
                n += 1
                _check_store(run, it, fi, node, st, payload[1], payload[0])
        if n == 0:
            raise AnalysisError(f"{fi.fqn}: no store to the local validation_status found")
        # every value the local can take is one of the three literals
        for nnode in walk_no_nested(fi.node):
            if isinstance(nnode, ast.Assign) and any(isinstance(t, ast.Name) and t.id == "validation_status" for t in nnode.targets):
                def lit(v: ast.AST) -> bool:
                    # one of the three literals, or a conditional expression between such
                    return (isinstance(v, ast.Constant) and v.value in STATUSES) or (isinstance(v, ast.IfExp) and lit(v.body) and lit(v.orelse))
                ok = lit(nnode.value)
                run.instance("R10.2", fi.module.loc(nnode), f"{qual}: validation_status = {norm(nnode.value)}", ok=ok)
                if not ok:
                    run.violation("R10.2", fi.module, qual, nnode, "validation_status is assigned something other than one of the three literals")

    _r10_7(run, res)
    _r10_8(run, res)


def _check_store(run: Run, it: Interp, fi: FuncInfo, node, st: dict, status: str, what: str) -> None:
    mod = fi.module
    qual = fi.qualname
    where = f"{mod.relpath}:{node.lineno}"
    ok2 = status in STATUSES
    run.instance("R10.2", where, f"{qual}: {what} <- {status}", ok=ok2)
    if not ok2:
        run.violation("R10.2", mod, qual, node.ast, f"validation_status is set to {status!r}, which is not one of VALIDATED/UNVALIDATED/INVALID")
        return
    errvar = st.get("errvar")
    errs = st.get(f"tr:{errvar}") if errvar else None
    if status == "VALIDATED":
        ev = it.schema_evidence(st)
        clean = errs == "F" or st.get("lenient") == "T"
        same_pass = st.get("sv:cur") == st.get("sv:first")
        ok = ev is not None and clean and same_pass
        run.instance("R10.3", where, f"{qual}: VALIDATED stored with schema evidence [{ev}] and errors {'empty' if errs == 'F' else ('downgraded (LENIENT/ULTRA)' if st.get('lenient') == 'T' else 'UNKNOWN')}", ok=ok)
        if not ok:
            why = []
            if ev is None:
                why.append("no schema lookup is known to have succeeded on this path (unknown / malformed / unloadable schema name would be reported VALIDATED)")
            if not clean:
                why.append(f"the validator's error list `{errvar}` is not known to be empty on this path")
            if not same_pass:
                why.append(f"the error list that is empty comes from a validation pass made with strict={st.get('sv:cur')}, while the pass that judged the document used strict={st.get('sv:first')}: errors that only the judging pass reports are invisible to it")
            run.violation("R10.3", mod, qual, node.ast, "VALIDATED is stored on a path where " + " and ".join(why),
                          facts={k: (v.describe() if isinstance(v, Envelope) else v) for k, v in st.items() if k.split(':')[0] in ('nn', 'tr', 'lk', 'vs', 'errvar', 'lenient')})
    elif status == "INVALID":
        ok = errs == "T"
        run.instance("R10.4", where, f"{qual}: INVALID stored where `{errvar}` is known non-empty", ok=ok)
        if not ok:
            run.violation("R10.4", mod, qual, node.ast, f"INVALID is stored on a path where the validator's error list `{errvar}` is not known to be non-empty")


def _r10_7(run: Run, res: Resolver) -> None:
    """Validator(schema=None).validate(doc, strict, section_schemas=None) returns no errors."""
    mod = run.project.mod("core.validator")
    fi = mod.func("Validator.validate")
    cfg = CFG(fi.node)
    # functions of the class that can add to self.errors
    adders = set()
    for name, m in mod.cls("Validator").methods.items():
        for n in walk_no_nested(m.node):
            if isinstance(n, ast.Call) and isinstance(n.func, ast.Attribute) and n.func.attr in ("append", "extend") and ast.unparse(n.func.value) == "self.errors":
                adders.add(name)
    n_sites = 0
    from ..pathstate import conjuncts

    def facts_at(nid: int) -> set[str]:
        # the conditions known at a node, comparisons normalised (`x is None` false == `x is not None` true)
        return {f for t, val in branch_conditions(cfg, nid) for f in conjuncts(t, val)}

    for node in cfg.nodes:
        if node.ast is None or node.kind not in ("stmt",):
            continue
        calls = [c for c in ast.walk(node.ast) if isinstance(c, ast.Call)]
        adds = [c for c in calls if isinstance(c.func, ast.Attribute) and ((c.func.attr in ("append", "extend") and ast.unparse(c.func.value) == "self.errors") or (isinstance(c.func.value, ast.Name) and c.func.value.id == "self" and c.func.attr in adders))]
        for c in adds:
            n_sites += 1
            conds = branch_conditions(cfg, node.id)
            guarded = any(val is True and ("self.schema" in ast.unparse(t) or "section_schemas is not None" in ast.unparse(t)) for t, val in conds) or "section_schemas is not None" in facts_at(node.id)
            why = "guarded by a schema-presence test"
            if not guarded and isinstance(c.func, ast.Attribute) and c.func.attr == "_validate_section":
                # callee returns at once when its schema argument is None, and the argument is None unless section_schemas is given
                callee = mod.func("Validator._validate_section")
                first = [s for s in callee.node.body if not (isinstance(s, ast.Expr) and isinstance(s.value, ast.Constant))][0]
                pname = [a.arg for a in callee.node.args.args][3] if len(callee.node.args.args) > 3 else None
                early = isinstance(first, ast.If) and isinstance(first.test, ast.Compare) and isinstance(first.test.ops[0], ast.Is) and isinstance(first.test.left, ast.Name) and first.test.left.id == pname and isinstance(first.body[0], ast.Return)
                arg = c.args[2] if len(c.args) > 2 else None
                arg_none_by_default = False
                if isinstance(arg, ast.Name):
                    # bound to None, and rebound only under `section_schemas is not None`
                    binds = [n for n in walk_no_nested(fi.node) if isinstance(n, ast.Assign) and any(isinstance(t, ast.Name) and t.id == arg.id for t in n.targets)]
                    arg_none_by_default = bool(binds) and all((isinstance(b.value, ast.Constant) and b.value.value is None) or any("section_schemas is not None" in facts_at(x) for x in cfg.node_for_stmt_containing(b)) for b in binds)
                guarded = early and arg_none_by_default
                why = "_validate_section returns immediately for a None schema, which is what it gets without section_schemas"
            run.instance("R10.7", mod.loc(c), f"Validator.validate: `{norm(c)}` - {why}", ok=guarded)
            if not guarded:
                run.violation("R10.7", mod, fi.qualname, c, "an error-producing step of Validator.validate is not guarded by the presence of a schema: schema-less validation may report errors, which the CLI's re-validation turns into VALIDATED for an unknown schema")
    if n_sites < 3:
        raise AnalysisError(f"Validator.validate: only {n_sites} error-producing step(s) recognised")


def _r10_8(run: Run, res: Resolver) -> None:
    """the schema lookups are pure: nothing they reach writes module-level state (so a VALIDATED answer cannot come from a stale cache)"""
    from .c06 import module_state, writes_to_module_state

    run.rule("R10.8", "schema lookups are pure: no function reachable from get_builtin_schema / load_schema_by_name / load_schema writes module-level state (no cache that could answer for a schema that is no longer there)", 3)
    roots = ["octave_mcp.schemas.loader:get_builtin_schema", "octave_mcp.schemas.loader:load_schema_by_name", "octave_mcp.schemas.loader:load_schema"]
    reach = res.reachable_from(roots)
    for root in roots:
        bad = []
        for fq in sorted(res.reachable_from([root])):
            fi = res.func_by_fqn(fq)
            names = {n: k for n, _, k in module_state(fi.module)}
            for node, what in writes_to_module_state(fi, res, names):
                bad.append((fi, node, what))
        run.instance("R10.8", root.split(":")[0], f"{root.split(':')[1]}: {len(res.reachable_from([root]))} reachable function(s), {len(bad)} write(s) to module state", ok=not bad)
        for fi, node, what in bad:
            run.violation("R10.8", fi.module, fi.qualname, node, f"{what} on the schema lookup path: a cached answer can report VALIDATED (with an old schema_version) for a schema that was changed, removed or is not visible from the current working directory")
