"""C18 Absent, null and value stay distinct; changes touch only named keys."""
from __future__ import annotations

import ast

from ..astmodel import AstModel
from ..cfg import CFG, branch_conditions
from ..fsmodel import is_name, names_in
from ..report import Run
from ..resolve import Resolver
from ..source import AnalysisError, FuncInfo, norm, walk_no_nested

EMITTERS = ("emit_value", "emit_assignment")


def _comprehension_filters(n: ast.AST) -> list[tuple[ast.AST, bool]]:
    """conditions under which the expression `n` is evaluated inside its statement: filters of enclosing comprehensions and the
    tests of enclosing conditional expressions (conjunctions split)"""
    out: list[tuple[ast.AST, bool]] = []
    cur = getattr(n, "_parent", None)
    prev = n
    while cur is not None and not isinstance(cur, (ast.stmt,)):
        # `a if c else b`: b is evaluated only where c is false, a only where it is true
        if isinstance(cur, ast.IfExp) and prev is not cur.test:
            val = prev is cur.body
            t = cur.test
            parts = t.values if isinstance(t, ast.BoolOp) and ((isinstance(t.op, ast.And) and val) or (isinstance(t.op, ast.Or) and not val)) else [t]
            out += [(p, val) for p in parts]
        if isinstance(cur, (ast.ListComp, ast.SetComp, ast.GeneratorExp, ast.DictComp)) and prev not in [g.iter for g in cur.generators[:1]]:
            for g in cur.generators:
                for f in g.ifs:
                    parts = f.values if isinstance(f, ast.BoolOp) and isinstance(f.op, ast.And) else [f]
                    out += [(p, True) for p in parts]
        prev, cur = cur, getattr(cur, "_parent", None)
    return out


def _guarded_not_absent(cfg: CFG, nodes: list[int], expr: ast.AST, extra: list[tuple[ast.AST, bool]] | None = None) -> bool:
    want = ast.dump(expr)
    for x in nodes:
        ok = False
        for t, val in list(branch_conditions(cfg, x)) + list(extra or []):
            tt, v = t, val
            if isinstance(tt, ast.UnaryOp) and isinstance(tt.op, ast.Not):
                tt, v = tt.operand, not val
            if isinstance(tt, ast.Call) and ast.unparse(tt.func) == "is_absent" and len(tt.args) == 1 and ast.dump(tt.args[0]) == want and v is False:
                ok = True
            if isinstance(tt, ast.Call) and ast.unparse(tt.func) == "isinstance" and len(tt.args) == 2 and ast.dump(tt.args[0]) == want and ast.unparse(tt.args[1]) == "Absent" and v is False:
                ok = True
        if not ok:
            return False
    return bool(nodes)


def check_empty_block_header(run: Run) -> None:
    run.rule("R18.9", "an Absent element is skipped alone: inside every loop of the emitter, the branch taken for an Absent value (is_absent(..) / isinstance(.., Absent)) neither returns, breaks nor raises - leaving the loop there would drop every sibling after the absent one", 3)
    _absent_skips_one(run)
    run.rule("R18.8", "present-but-empty is not absent: in the META emitter the `KEY:` header of a nested block is appended unconditionally as soon as the value is a dict (it does not depend on whether any nested field produced a line)", 1)
    em = run.project.mod("core.emitter")
    _absence_not_truthiness(run, em)
    cands = [f for q, f in em.functions.items() if q in ("emit_meta", "_emit_meta_fields")]
    n = 0
    for fi in cands:
        for b in walk_no_nested(fi.node):
            if isinstance(b, ast.If) and ast.unparse(b.test).replace(" ", "") in ("isinstance(value,dict)",) or (isinstance(b, ast.If) and "isinstance" in ast.unparse(b.test) and ast.unparse(b.test).endswith(", dict)")):
                n += 1
                def is_header(st):
                    return isinstance(st, ast.Expr) and isinstance(st.value, ast.Call) and isinstance(st.value.func, ast.Attribute) and st.value.func.attr == "append" and st.value.args and isinstance(st.value.args[0], ast.JoinedStr) and isinstance(st.value.args[0].values[-1], ast.Constant) and str(st.value.args[0].values[-1].value).endswith(":") and not str(st.value.args[0].values[-1].value).endswith("::")
                top = [st for st in b.body if is_header(st)]
                nested = [st for st in ast.walk(b) if isinstance(st, ast.Expr) and is_header(st) and st not in b.body]
                ok = bool(top)
                if ok:
                    # nothing before the header can leave this iteration (an `if ...: continue` ahead of it makes it conditional)
                    def leaves(st) -> bool:
                        if isinstance(st, (ast.Continue, ast.Return, ast.Break)):
                            return True
                        if isinstance(st, (ast.For, ast.While, ast.FunctionDef)):
                            return False
                        return any(leaves(c) for c in ast.iter_child_nodes(st) if isinstance(c, ast.stmt)) or any(leaves(c) for f in ("body", "orelse") for c in getattr(st, f, []) if isinstance(c, ast.stmt))
                    before = b.body[: b.body.index(top[0])]
                    if any(leaves(st) for st in before):
                        ok = False
                        nested = before
                run.instance("R18.8", em.loc(b), f"{fi.qualname}: nested-block header appended unconditionally: {ok}", ok=ok)
                if not ok:
                    run.violation("R18.8", em, fi.qualname, "nested META block header is conditional", f"{fi.qualname} writes the `KEY:` header of a block nested in META only under a condition ({len(nested)} conditional site(s)): a block that is present but empty (EXTENSIONS: with no fields) disappears from every file the tools write, although no change named it")
    if n < 1:
        raise AnalysisError("emit_meta: dict branch not found")


def _absence_not_truthiness(run: Run, em) -> None:
    """R18.10: null, \"\", 0, false and [] are values; only Absent is absence"""
    run.rule("R18.10", "absence is never decided by truthiness: in the emitter every any()/all()/filter() over the values or items of a container judges each element with is_absent(..) / isinstance(.., Absent) - a bare element, `not v`, bool(v) or filter(None, ..) would treat null, \"\", 0, false and [] like an absent field and drop them", 2)
    n = 0

    def elt_is_truthiness(e: ast.AST, var: str | None) -> bool:
        while isinstance(e, ast.UnaryOp) and isinstance(e.op, ast.Not):
            e = e.operand
        if isinstance(e, ast.Call) and isinstance(e.func, ast.Name) and e.func.id == "bool" and len(e.args) == 1:
            e = e.args[0]
        return isinstance(e, ast.Name) and (var is None or e.id == var)

    for q, fi in em.functions.items():
        for c in walk_no_nested(fi.node):
            if not (isinstance(c, ast.Call) and isinstance(c.func, ast.Name) and c.func.id in ("any", "all", "filter") and c.args):
                continue
            arg = c.args[-1] if c.func.id == "filter" else c.args[0]
            src = arg.generators[0].iter if isinstance(arg, (ast.GeneratorExp, ast.ListComp)) and arg.generators else arg
            stxt = ast.unparse(src)
            if not (".values()" in stxt or ".items" in stxt or ".pairs" in stxt or ".children" in stxt or ".sections" in stxt):
                continue
            n += 1
            bad = None
            if c.func.id == "filter":
                if isinstance(c.args[0], ast.Constant) and c.args[0].value is None:
                    bad = "filter(None, ...) keeps only truthy elements"
            elif not isinstance(arg, (ast.GeneratorExp, ast.ListComp)):
                bad = f"{c.func.id}() over the bare elements tests their truthiness"
            else:
                var = arg.generators[0].target.id if isinstance(arg.generators[0].target, ast.Name) else None
                if elt_is_truthiness(arg.elt, var):
                    bad = f"`{norm(arg.elt)}` tests the element's truthiness"
            run.instance("R18.10", em.loc(c), f"{q}: `{norm(c)[:80]}`", ok=bad is None)
            if bad:
                run.violation("R18.10", em, q, c, f"{q}: {bad}: an explicit null, an empty string, 0, false or an empty list is then treated like an Absent field (dropped from the output, or its container is skipped as empty) - absent, null and value are confused")
    if n == 0:
        raise AnalysisError("emitter: no any()/all() over container values found (the all-Absent inline-map guards): anchor moved")


def check(run: Run) -> None:
    res = Resolver(run.project)
    am = AstModel(run.project)
    run.rule("R18.1", "Absent is filtered before every emission: each emit_value / emit_assignment call on an element taken from children / items / pairs / meta is dominated by an is_absent test that skips it", 9)
    run.rule("R18.2", "emit_value raises on Absent first and maps None to the constant \"null\"; emit_meta returns no header when nothing is left", 3)
    run.rule("R18.3", "tri-state dispatch in _apply_changes / _apply_mutations: every stored request value was tested not to be the DELETE sentinel and is wrapped by _normalize_value_for_ast; DELETE paths remove exactly the named key; META dict requests merge", 6)
    run.rule("R18.4", "_normalize_value_for_ast is the identity on scalars, None and literal zones and wraps lists/dicts element-wise (so null stays null and a value request sets exactly that value)", 4)
    run.rule("R18.5", "frame: _apply_changes stores only into the assignment whose key equals the request key, or appends a new assignment with that key; no other node or field is written", 3)
    run.rule("R18.6", "every other implementation of 'apply changes' (CLI write --changes) is the tool's implementation (sibling agreement)", 1)

    em = run.project.mod("core.emitter")
    # ---------------------------------------------------------------- R18.1
    n_calls = 0
    deferred: list[tuple[FuncInfo, str]] = []  # functions whose parameter's .value is emitted unguarded: callers must guard
    deferred_self: list[tuple[FuncInfo, str]] = []  # helpers that emit a parameter itself unguarded: callers must guard that argument
    for fi in em.functions.values():
        cfg = None
        for n in walk_no_nested(fi.node):
            if isinstance(n, ast.Call) and isinstance(n.func, ast.Name) and n.func.id in EMITTERS and n.args:
                n_calls += 1
                cfg = cfg or CFG(fi.node)
                arg = n.args[0]
                # a local bound once to `<parameter>.value` (an alias written for readability) stands for that attribute
                if isinstance(arg, ast.Name) and arg.id not in [a.arg for a in fi.node.args.args]:  # type: ignore[attr-defined]
                    adefs = [a.value for a in walk_no_nested(fi.node) if isinstance(a, ast.Assign) and len(a.targets) == 1 and isinstance(a.targets[0], ast.Name) and a.targets[0].id == arg.id]
                    others = [a for a in walk_no_nested(fi.node) if isinstance(a, (ast.AugAssign, ast.AnnAssign, ast.NamedExpr, ast.For, ast.comprehension)) and any(isinstance(x, ast.Name) and x.id == arg.id and isinstance(x.ctx, ast.Store) for x in ast.walk(a.target))]
                    if len(adefs) == 1 and not others and isinstance(adefs[0], ast.Attribute) and adefs[0].attr == "value" and isinstance(adefs[0].value, ast.Name) and adefs[0].value.id in [a.arg for a in fi.node.args.args]:  # type: ignore[attr-defined]
                        arg = adefs[0]
                probe = arg if n.func.id == "emit_value" else ast.Attribute(value=arg, attr="value", ctx=ast.Load())
                nodes = cfg.node_for_stmt_containing(n)
                ok = _guarded_not_absent(cfg, nodes, probe, _comprehension_filters(n))
                why = "guarded by is_absent(...) in the same function"
                params = [a.arg for a in fi.node.args.args]  # type: ignore[attr-defined]
                if not ok and isinstance(probe, ast.Attribute) and isinstance(probe.value, ast.Name) and probe.value.id in params and probe.attr == "value":
                    deferred.append((fi, probe.value.id))
                    ok = True
                    why = f"emits `{ast.unparse(probe)}` of its own parameter: every caller must filter (checked at the call sites)"
                if not ok and isinstance(arg, ast.Name) and arg.id in params and fi.name == "emit_value":
                    ok = True
                    why = "recursion on own parameter"
                if not ok and n.func.id == "emit_value" and isinstance(arg, ast.Name) and arg.id in params and fi.name not in EMITTERS:
                    # a helper that emits its own parameter: the filter is the callers' obligation
                    deferred_self.append((fi, arg.id))
                    ok = True
                    why = f"emits its own parameter `{arg.id}`: every caller must filter (checked at the call sites)"
                run.instance("R18.1", em.loc(n), f"{fi.qualname}: `{norm(n)}` - {why}", ok=ok)
                if not ok:
                    run.violation("R18.1", em, fi.qualname, n, f"`{ast.unparse(probe)}` is emitted without an is_absent test that skips it: an Absent field would raise or be written out instead of being omitted")
    if n_calls < 9:
        raise AnalysisError(f"emitter.py: only {n_calls} emit_value/emit_assignment call(s) found")
    # emit_assignment emits assignment.value: all callers guard `X.value`
    for fi, p in deferred:
        for caller in run.project.all_functions():
            if caller.module is not em and not caller.module.name.startswith("octave_mcp.core"):
                continue
            cfg = None
            for n in walk_no_nested(caller.node):
                if isinstance(n, ast.Call) and isinstance(n.func, ast.Name) and n.func.id == fi.name and n.args and caller is not fi:
                    cfg = cfg or CFG(caller.node)
                    probe = ast.Attribute(value=n.args[0], attr="value", ctx=ast.Load())
                    ok = _guarded_not_absent(cfg, cfg.node_for_stmt_containing(n), probe, _comprehension_filters(n))
                    run.instance("R18.1", caller.module.loc(n), f"{caller.qualname}: caller of {fi.name} filters is_absent({ast.unparse(probe)})", ok=ok)
                    if not ok:
                        run.violation("R18.1", caller.module, caller.qualname, n, f"{fi.name}() is called on a node whose value was not tested with is_absent: an Absent field would not be omitted")

    for fi, p in deferred_self:
        params = [a.arg for a in fi.node.args.args]  # type: ignore[attr-defined]
        idx = params.index(p)
        for caller in em.functions.values():
            cfg = None
            for n in walk_no_nested(caller.node):
                if isinstance(n, ast.Call) and isinstance(n.func, ast.Name) and n.func.id == fi.name and caller is not fi:
                    a = n.args[idx] if idx < len(n.args) else next((k.value for k in n.keywords if k.arg == p), None)
                    if a is None:
                        continue
                    cfg = cfg or CFG(caller.node)
                    ok = _guarded_not_absent(cfg, cfg.node_for_stmt_containing(n), a, _comprehension_filters(n))
                    run.instance("R18.1", em.loc(n), f"{caller.qualname}: caller of {fi.name} filters is_absent({ast.unparse(a)})", ok=ok)
                    if not ok:
                        run.violation("R18.1", em, caller.qualname, n, f"{fi.name}() emits its argument `{ast.unparse(a)}` and is called here without an is_absent test that skips it: an Absent field would raise or be written out instead of being omitted")

    # ---------------------------------------------------------------- R18.2
    ev = em.func("emit_value")
    pv = ev.node.args.args[0].arg  # type: ignore[attr-defined]
    body = [s for s in ev.node.body if not (isinstance(s, ast.Expr) and isinstance(s.value, ast.Constant))]
    first = body[0] if body else None
    ok = isinstance(first, ast.If) and isinstance(first.test, ast.Call) and ast.unparse(first.test.func) in ("isinstance", "is_absent") and is_name(first.test.args[0], pv) and "Absent" in ast.unparse(first.test) + ("Absent" if ast.unparse(first.test.func) == "is_absent" else "") and any(isinstance(s, ast.Raise) for s in first.body)
    run.instance("R18.2", em.loc(ev.node), "emit_value: first statement raises on Absent", ok=ok)
    if not ok:
        run.violation("R18.2", em, ev.qualname, "raise on Absent first", "emit_value no longer refuses an Absent value before any other dispatch (Absent could be written as text)")
    cfg = CFG(ev.node)
    null_ok = False
    for n in cfg.nodes:
        if isinstance(n.ast, ast.Return) and isinstance(n.ast.value, ast.Constant) and n.ast.value.value == "null":
            for t, val in branch_conditions(cfg, n.id):
                if isinstance(t, ast.Compare) and is_name(t.left, pv) and isinstance(t.ops[0], ast.Is) and isinstance(t.comparators[0], ast.Constant) and t.comparators[0].value is None and val is True:
                    null_ok = True
    # and the None test precedes every other value test (so None cannot be swallowed by an earlier branch)
    order_ok = False
    tests = [n for n in cfg.nodes if n.kind == "test" and n.ast is not None]
    if len(tests) >= 2:
        second = tests[1].ast
        order_ok = isinstance(second, ast.Compare) and is_name(second.left, pv) and isinstance(second.ops[0], ast.Is)
    run.instance("R18.2", em.loc(ev.node), "emit_value: `value is None` -> \"null\" directly after the Absent test", ok=null_ok and order_ok)
    if not (null_ok and order_ok):
        run.violation("R18.2", em, ev.qualname, "None -> \"null\"", f"emit_value does not map None to the literal null before other dispatch (null return guarded by `is None`: {null_ok}; tested right after Absent: {order_ok})")
    mt = em.func("emit_meta")
    cfg = CFG(mt.node)
    rets = [n for n in cfg.nodes if isinstance(n.ast, ast.Return)]
    header = [n for n in rets if any(isinstance(c, ast.Constant) and isinstance(c.value, str) and "META:" in c.value for c in ast.walk(n.ast))]
    ok = bool(header)
    for h in header:
        conds = branch_conditions(cfg, h.id)
        ok = ok and any(isinstance(t, ast.UnaryOp) and isinstance(t.op, ast.Not) and isinstance(t.operand, ast.Name) and t.operand.id in names_in(h.ast) and val is False for t, val in conds)
    run.instance("R18.2", em.loc(mt.node), "emit_meta: the META: header is returned only when at least one field line was collected", ok=ok)
    if not ok:
        run.violation("R18.2", em, mt.qualname, "no empty META: header", "emit_meta can emit a META: header with no field under it (all fields Absent)")

    # ---------------------------------------------------------------- R18.3 / R18.5
    wm = run.project.mod("mcp.write")
    for qual in ("WriteTool._apply_changes", "WriteTool._apply_mutations"):
        fi = wm.func(qual)
        cfg = CFG(fi.node)
        # request value variables: loop targets over <dict>.items()
        req: dict[str, str] = {}  # value var -> key var
        for n in walk_no_nested(fi.node):
            if isinstance(n, ast.For) and isinstance(n.iter, ast.Call) and isinstance(n.iter.func, ast.Attribute) and n.iter.func.attr == "items" and isinstance(n.target, ast.Tuple) and len(n.target.elts) == 2:
                k, v = n.target.elts
                if isinstance(k, ast.Name) and isinstance(v, ast.Name):
                    req[v.id] = k.id
        if not req:
            raise AnalysisError(f"{qual}: request loop not found")
        # names derived from request values through _normalize_value_for_ast
        normalized: dict[str, str] = {}
        for n in walk_no_nested(fi.node):
            if isinstance(n, ast.Assign) and len(n.targets) == 1 and isinstance(n.targets[0], ast.Name) and isinstance(n.value, ast.Call) and ast.unparse(n.value.func) == "_normalize_value_for_ast" and n.value.args and isinstance(n.value.args[0], ast.Name) and n.value.args[0].id in req:
                normalized[n.targets[0].id] = n.value.args[0].id
        key_derived = set(req.values())
        for n in walk_no_nested(fi.node):
            if isinstance(n, ast.Assign) and len(n.targets) == 1 and isinstance(n.targets[0], ast.Name) and names_in(n.value) & key_derived and not isinstance(n.value, ast.Call):
                key_derived.add(n.targets[0].id)
        # `existing = next((s for s in <doc>.sections if ... s.key == <request key>), None)`: the first assignment with the request key
        found_by_key: set[str] = set()
        for n in walk_no_nested(fi.node):
            if isinstance(n, ast.Assign) and len(n.targets) == 1 and isinstance(n.targets[0], ast.Name) and isinstance(n.value, ast.Call) and is_name(n.value.func, "next") and len(n.value.args) == 2 and isinstance(n.value.args[0], ast.GeneratorExp) and isinstance(n.value.args[1], ast.Constant) and n.value.args[1].value is None:
                ge = n.value.args[0]
                g = ge.generators[0]
                if len(ge.generators) == 1 and isinstance(g.target, ast.Name) and is_name(ge.elt, g.target.id) and ast.unparse(g.iter).endswith(".sections") and len(g.ifs) == 1:
                    facts = g.ifs[0].values if isinstance(g.ifs[0], ast.BoolOp) and isinstance(g.ifs[0].op, ast.And) else [g.ifs[0]]
                    if any(isinstance(c, ast.Compare) and len(c.ops) == 1 and isinstance(c.ops[0], ast.Eq) and ast.unparse(c.left) == f"{g.target.id}.key" and names_in(c.comparators[0]) & key_derived for c in facts):
                        if sum(1 for m in walk_no_nested(fi.node) if isinstance(m, ast.Assign) and any(is_name(t, n.targets[0].id) for t in m.targets)) == 1:
                            found_by_key.add(n.targets[0].id)
        # key -> index tables: `P = {}; for i, n in enumerate(<doc>.sections): if isinstance(n, Assignment): P.setdefault(n.key, i)`.
        # `pos = P.get(<request key>)` then selects BY KEY as long as the table is fresh: a must-analysis over the CFG in which
        # the end of such a build loop makes P fresh and every rebinding / reordering of <doc>.sections makes it stale (an
        # append leaves the positions of the existing nodes alone)
        index_tables: dict[str, list[ast.For]] = {}
        for n in walk_no_nested(fi.node):
            if isinstance(n, ast.For) and isinstance(n.iter, ast.Call) and is_name(n.iter.func, "enumerate") and len(n.iter.args) == 1 and ast.unparse(n.iter.args[0]).endswith(".sections") and isinstance(n.target, ast.Tuple) and len(n.target.elts) == 2 and all(isinstance(e, ast.Name) for e in n.target.elts) and len(n.body) == 1 and isinstance(n.body[0], ast.If) and not n.body[0].orelse and not n.orelse:
                iv, nv = n.target.elts[0].id, n.target.elts[1].id  # type: ignore[attr-defined]
                t0 = n.body[0].test
                if ast.unparse(t0) == f"isinstance({nv}, Assignment)" and len(n.body[0].body) == 1 and isinstance(n.body[0].body[0], ast.Expr):
                    c0 = n.body[0].body[0].value
                    if isinstance(c0, ast.Call) and isinstance(c0.func, ast.Attribute) and c0.func.attr == "setdefault" and isinstance(c0.func.value, ast.Name) and len(c0.args) == 2 and ast.unparse(c0.args[0]) == f"{nv}.key" and is_name(c0.args[1], iv):
                        index_tables.setdefault(c0.func.value.id, []).append(n)
        fresh_at: dict[str, set[int]] = {}
        for P, loops in index_tables.items():
            # every build loop is directly preceded by `P = {}`
            okb = True
            for lp in loops:
                blk = None
                par = getattr(lp, "_parent", None)
                for f_ in ("body", "orelse", "finalbody"):
                    v_ = getattr(par, f_, None)
                    if isinstance(v_, list) and lp in v_:
                        blk = v_
                i_ = blk.index(lp) if blk else 0
                prev_ = blk[i_ - 1] if blk and i_ > 0 else None
                if not (isinstance(prev_, (ast.Assign, ast.AnnAssign)) and isinstance(prev_.value, ast.Dict) and not prev_.value.keys and is_name(prev_.targets[0] if isinstance(prev_, ast.Assign) else prev_.target, P)):
                    okb = False
            if not okb:
                continue
            # other writes of P: only P[<key>] = len(<doc>.sections) (registering a node that is appended next) and P.pop(..)
            state: dict[int, str] = {cfg.entry: "S"}
            work = [cfg.entry]
            loop_iters = {n_.id for n_ in cfg.nodes if n_.kind == "iter" and n_.owner in loops}

            def stale_effect(node_) -> bool:
                a_ = node_.ast
                if a_ is None or node_.kind not in ("stmt", "with"):
                    return False
                for x in walk_no_nested(a_):
                    if isinstance(x, (ast.Assign, ast.AugAssign, ast.AnnAssign)):
                        for t_ in (x.targets if isinstance(x, ast.Assign) else [x.target]):
                            if isinstance(t_, ast.Attribute) and t_.attr == "sections":
                                return True
                            if isinstance(t_, ast.Subscript) and isinstance(t_.value, ast.Attribute) and t_.value.attr == "sections" and isinstance(t_.slice, ast.Slice):
                                return True
                            if is_name(t_, P) and not (isinstance(x, (ast.Assign, ast.AnnAssign)) and isinstance(x.value, ast.Dict) and not x.value.keys):
                                return True
                    if isinstance(x, ast.Delete) and any(isinstance(t_, ast.Subscript) and isinstance(t_.value, ast.Attribute) and t_.value.attr == "sections" for t_ in x.targets):
                        return True
                    if isinstance(x, ast.Call) and isinstance(x.func, ast.Attribute) and x.func.attr in ("insert", "pop", "remove", "sort", "reverse", "clear", "extend") and isinstance(x.func.value, ast.Attribute) and x.func.value.attr == "sections":
                        return True
                    if isinstance(x, ast.Call) and isinstance(x.func, ast.Attribute) and x.func.attr in ("update", "clear") and is_name(x.func.value, P):
                        return True
                return False

            while work:
                n_ = work.pop()
                st_in = state[n_]
                node_ = cfg.nodes[n_]
                for s_, lab_ in cfg.succ[n_]:
                    st_out = st_in
                    if stale_effect(node_):
                        st_out = "S"
                    if n_ in loop_iters and lab_ == "done":
                        st_out = "F"  # the build loop ran to its end
                    if n_ in loop_iters and lab_ != "done" and lab_ != "x":
                        st_out = "S"  # (inside the build loop the table is incomplete)
                    old_ = state.get(s_)
                    new_ = st_out if old_ is None else ("F" if (old_ == "F" and st_out == "F") else "S")
                    if new_ != old_:
                        state[s_] = new_
                        work.append(s_)
            fresh_at[P] = {k_ for k_, v_ in state.items() if v_ == "F"}
        # locals bound to `P.get(<request key>)` / `P[<request key>]` where P is fresh: found by key (an index)
        index_of_key: set[str] = set()
        for n in walk_no_nested(fi.node):
            if isinstance(n, ast.Assign) and len(n.targets) == 1 and isinstance(n.targets[0], ast.Name):
                v = n.value
                P = None
                if isinstance(v, ast.Call) and isinstance(v.func, ast.Attribute) and v.func.attr == "get" and isinstance(v.func.value, ast.Name) and v.func.value.id in fresh_at and len(v.args) == 1 and isinstance(v.args[0], ast.Name) and v.args[0].id in key_derived:
                    P = v.func.value.id
                if P is not None and sum(1 for m in walk_no_nested(fi.node) if isinstance(m, ast.Assign) and any(is_name(t, n.targets[0].id) for t in m.targets)) == 1:
                    nid = [x.id for x in cfg.nodes if x.ast is n]
                    if nid and nid[0] in fresh_at[P]:
                        index_of_key.add(n.targets[0].id)
        found_by_key |= index_of_key

        def key_expr_ok(k: ast.AST) -> bool:
            # the request key itself, a local derived from it, or a pure slice / subscript of it (`key[5:]`, `key[len("META."):]`)
            if isinstance(k, ast.Name):
                return k.id in key_derived
            nm = names_in(k)
            return bool(nm & key_derived) and nm <= key_derived | {"len"} and not any(isinstance(x, ast.Call) and not (isinstance(x.func, ast.Name) and x.func.id == "len") for x in ast.walk(k))

        writes = list(am.ast_writes(fi, res))
        cons = list(am.constructions(fi))
        n_store = 0
        # delegation to the sibling that applies META mutations (checked by these same rules): only the request itself is handed over
        if qual.endswith("_apply_changes"):
            for c in walk_no_nested(fi.node):
                if isinstance(c, ast.Call) and ast.unparse(c.func) == "self._apply_mutations" and len(c.args) == 2:
                    a = c.args[1]
                    ok = (isinstance(a, ast.Name) and a.id in req) or (isinstance(a, ast.Dict) and len(a.keys) == 1 and a.keys[0] is not None and bool(names_in(a.keys[0]) & key_derived) and names_in(a.keys[0]) <= key_derived | {"len"} and isinstance(a.values[0], ast.Name) and a.values[0].id in req)
                    n_store += 1
                    run.instance("R18.3", wm.loc(c), f"{qual}: `{norm(c)}` hands the request (and nothing else) to _apply_mutations", ok=ok)
                    if not ok:
                        run.violation("R18.3", wm, qual, c, "_apply_mutations is called with something that is not the request value (or one request key/value pair): fields the caller did not name would be written")
        for node, kind, fld in writes:
            st = node
            while st is not None and not isinstance(st, ast.stmt):
                st = getattr(st, "_parent", None)
            nodes = cfg.node_for_stmt_containing(node)
            conds = [c for x in nodes for c in branch_conditions(cfg, x)]
            def sentinel(valvar: str | None, want: bool) -> bool:
                for t, val in conds:
                    if isinstance(t, ast.Call) and ast.unparse(t.func) == "_is_delete_sentinel" and t.args and isinstance(t.args[0], ast.Name) and (valvar is None or t.args[0].id == valvar) and val is want:
                        return True
                return False
            n_store += 1
            if kind in ("store", "item-store") and isinstance(st, ast.Assign):
                v = st.value
                # which request value is stored?
                src = None
                wrapped = False
                if isinstance(v, ast.Call) and ast.unparse(v.func) == "_normalize_value_for_ast" and v.args and isinstance(v.args[0], ast.Name) and v.args[0].id in req:
                    src, wrapped = v.args[0].id, True
                elif isinstance(v, ast.Name) and v.id in normalized:
                    src, wrapped = normalized[v.id], True
                elif isinstance(v, ast.Name) and v.id in req:
                    src = v.id
                elif isinstance(v, ast.Dict) and not v.keys and fld == "meta":
                    # doc.meta = {} : only under DELETE sentinel
                    ok = sentinel(None, True)
                    run.instance("R18.3", wm.loc(node), f"{qual}: `{norm(st)}` (clear META) only under the DELETE sentinel", ok=ok)
                    if not ok:
                        run.violation("R18.3", wm, qual, st, "META is rebound/cleared outside the DELETE-sentinel path: unmentioned META fields are dropped")
                    continue
                elif isinstance(v, ast.ListComp) and fld == "sections":
                    # doc.sections = [s for s in doc.sections if not (isinstance(s, Assignment) and s.key == key)]
                    g = v.generators[0]
                    filt = g.ifs[0] if g.ifs else None
                    keyed = filt is not None and any(isinstance(c, ast.Compare) and isinstance(c.ops[0], (ast.Eq, ast.NotEq)) and {ast.unparse(c.left).split(".")[-1], ast.unparse(c.comparators[0]).split(".")[-1]} & {"key"} and names_in(c) & key_derived for c in ast.walk(filt))
                    same_src = ast.unparse(g.iter).endswith(".sections") and is_name(v.elt, g.target.id if isinstance(g.target, ast.Name) else "\0")
                    ok = sentinel(None, True) and keyed and same_src
                    run.instance("R18.3", wm.loc(node), f"{qual}: `{norm(st)}` removes exactly the named key, only under the DELETE sentinel", ok=ok)
                    if not ok:
                        run.violation("R18.3", wm, qual, st, "the section list is rebuilt by something other than 'drop the assignment whose key equals the request key, under the DELETE sentinel'")
                    continue
                if src is None:
                    run.instance("R18.3", wm.loc(node), f"{qual}: `{norm(st)}`", ok=False)
                    run.violation("R18.3", wm, qual, st, "a document field is stored from something that is not a request value")
                    continue
                ok = wrapped and sentinel(src, False)
                run.instance("R18.3", wm.loc(node), f"{qual}: `{norm(st)}` stores request value `{src}` wrapped, DELETE sentinel excluded", ok=ok)
                if not ok:
                    run.violation("R18.3", wm, qual, st, f"request value `{src}` is stored {'unwrapped' if not wrapped else ''}{' and ' if not wrapped and not sentinel(src, False) else ''}{'without having been tested against the DELETE sentinel' if not sentinel(src, False) else ''}: a DELETE request would be written as a value / a list would be written as its Python repr")
                # frame: store into `.value` needs key equality guard
                if fld == "value":
                    keyeq = any(val is True and any(isinstance(c, ast.Compare) and isinstance(c.ops[0], ast.Eq) and ast.unparse(c.left).endswith(".key") and names_in(c.comparators[0]) & key_derived for c in ast.walk(t)) for t, val in conds)
                    base = getattr(node, "value", None)
                    if not keyeq and isinstance(base, ast.Name) and base.id in found_by_key:
                        keyeq = True  # the object was selected by its key
                    if not keyeq and isinstance(base, ast.Subscript) and isinstance(base.value, ast.Attribute) and base.value.attr == "sections" and isinstance(base.slice, ast.Name) and base.slice.id in index_of_key:
                        # <doc>.sections[pos] with pos looked up by key in a fresh index table - and still fresh at the store
                        P_ = next((a_.value.func.value.id for a_ in walk_no_nested(fi.node) if isinstance(a_, ast.Assign) and any(is_name(t_, base.slice.id) for t_ in a_.targets) and isinstance(a_.value, ast.Call)), None)  # type: ignore[union-attr]
                        keyeq = P_ in fresh_at and all(x in fresh_at[P_] for x in nodes) and any(isinstance(t, ast.Compare) and is_name(t.left, base.slice.id) and isinstance(t.ops[0], ast.IsNot) and val is True for t, val in conds)
                    run.instance("R18.5", wm.loc(node), f"{qual}: `{norm(st)}` only where <node>.key == request key", ok=keyeq)
                    if not keyeq:
                        run.violation("R18.5", wm, qual, st, "an assignment's value is overwritten without its key having been compared with the request key: unmentioned fields can change")
                if fld == "meta" and kind == "item-store":
                    k = node.slice  # type: ignore[attr-defined]
                    ok_k = key_expr_ok(k)
                    run.instance("R18.5", wm.loc(node), f"{qual}: META item store keyed by the request key `{ast.unparse(k)}`", ok=ok_k)
                    if not ok_k:
                        run.violation("R18.5", wm, qual, st, "a META field other than the one named in the request is written")
            elif kind in ("item-store",) and isinstance(st, ast.Delete):
                k = node.slice  # type: ignore[attr-defined]
                ok = sentinel(None, True) and key_expr_ok(k)
                run.instance("R18.3", wm.loc(node), f"{qual}: `{norm(st)}` deletes exactly the named META key under the DELETE sentinel", ok=ok)
                if not ok:
                    run.violation("R18.3", wm, qual, st, "a META key is deleted outside the DELETE-sentinel path or is not the key named in the request")
            elif kind.startswith("mutator"):
                call = node
                meth = call.func.attr  # type: ignore[attr-defined]
                if meth == "pop" and fld == "meta":
                    ok = sentinel(None, True) and call.args and key_expr_ok(call.args[0])  # type: ignore[attr-defined]
                    run.instance("R18.3", wm.loc(node), f"{qual}: `{norm(call)}` removes exactly the named META key under the DELETE sentinel", ok=bool(ok))
                    if not ok:
                        run.violation("R18.3", wm, qual, call, "META.pop outside the DELETE-sentinel path or with a key other than the request key")
                elif meth == "append" and fld == "sections":
                    arg = call.args[0] if call.args else None  # type: ignore[attr-defined]
                    newnode = None
                    if isinstance(arg, ast.Name):
                        for n2 in walk_no_nested(fi.node):
                            if isinstance(n2, ast.Assign) and any(is_name(t, arg.id) for t in n2.targets) and isinstance(n2.value, ast.Call):
                                newnode = n2.value
                    elif isinstance(arg, ast.Call):
                        newnode = arg
                    ok = False
                    if newnode is not None and ast.unparse(newnode.func) == "Assignment":
                        kw = {k.arg: k.value for k in newnode.keywords}
                        ok = "key" in kw and isinstance(kw["key"], ast.Name) and kw["key"].id in key_derived and "value" in kw and isinstance(kw["value"], ast.Name) and kw["value"].id in normalized
                    notfound = any(isinstance(t, ast.UnaryOp) and isinstance(t.op, ast.Not) and val is True for t, val in conds)
                    for t, val in conds:
                        if isinstance(t, ast.Compare) and len(t.ops) == 1 and isinstance(t.left, ast.Name) and t.left.id in found_by_key and isinstance(t.comparators[0], ast.Constant) and t.comparators[0].value is None:
                            if (isinstance(t.ops[0], ast.IsNot) and val is False) or (isinstance(t.ops[0], ast.Is) and val is True):
                                notfound = True
                        if isinstance(t, ast.Name) and t.id in found_by_key and val is False:
                            notfound = True
                    run.instance("R18.5", wm.loc(node), f"{qual}: new assignment appended with the request key and wrapped value, only when no existing key matched", ok=ok and notfound)
                    if not (ok and notfound):
                        run.violation("R18.5", wm, qual, call, "a node is appended that is not Assignment(key=<request key>, value=<wrapped request value>) under `not found`")
                else:
                    run.instance("R18.5", wm.loc(node), f"{qual}: `{norm(call)}`", ok=False)
                    run.violation("R18.5", wm, qual, call, f"unexpected container mutation .{meth}() on `.{fld}` while applying changes")
            else:
                run.instance("R18.5", wm.loc(node), f"{qual}: `{norm(st) if st else norm(node)}`", ok=False)
                run.violation("R18.5", wm, qual, st or node, f"unexpected document {kind} on `.{fld}` while applying changes")
        if n_store == 0:
            raise AnalysisError(f"{qual}: no document write found")
        # META dict request merges: the loop over <new_value>.items() exists and rebinding of doc.meta happens only for the sentinel (checked above)
        if qual.endswith("_apply_changes"):
            merges = [n for n in walk_no_nested(fi.node) if isinstance(n, ast.For) and isinstance(n.iter, ast.Call) and ast.unparse(n.iter.func).endswith(".items") and isinstance(n.iter.func, ast.Attribute) and isinstance(n.iter.func.value, ast.Name) and n.iter.func.value.id in req]
            # ... or the whole request dict is handed to _apply_mutations, which loops over it (checked above for that function)
            delegated = [c for c in walk_no_nested(fi.node) if isinstance(c, ast.Call) and ast.unparse(c.func) == "self._apply_mutations" and len(c.args) == 2 and isinstance(c.args[1], ast.Name) and c.args[1].id in req]
            ok = bool(merges) or bool(delegated)
            run.instance("R18.3", wm.loc(fi.node), f"{qual}: a META{{...}} request is merged key by key (loop over the request dict)", ok=ok)
            if not ok:
                run.violation("R18.3", wm, qual, "META dict merge loop", "a META{...} request is not merged key by key (unmentioned META fields would be dropped)")

    check_normalize(run, "R18.4")

    check_quote_str_only(run, "R18.2")

    # ---------------------------------------------------------------- R18.7 (each request starts from the file, not from an earlier request)
    run.rule("R18.7", "each changes request is applied to a document parsed afresh from the bytes just read; the tool keeps no document or cache between requests", 2)
    wt = wm.cls("WriteTool")
    keeps = []
    for name, fi in wt.methods.items():
        for n in walk_no_nested(fi.node):
            if isinstance(n, ast.Attribute) and isinstance(n.ctx, (ast.Store, ast.Del)) and isinstance(n.value, ast.Name) and n.value.id == "self":
                keeps.append((fi, n))
            if isinstance(n, ast.Subscript) and isinstance(n.ctx, (ast.Store, ast.Del)) and isinstance(n.value, ast.Attribute) and isinstance(n.value.value, ast.Name) and n.value.value.id == "self":
                keeps.append((fi, n))
    run.instance("R18.7", wm.loc(wt.node), f"WriteTool: {len(wt.methods)} methods store nothing on self", ok=not keeps)
    for fi, n in keeps:
        run.violation("R18.7", wm, fi.qualname, n, "octave_write keeps state on the tool object (the server holds one instance): a document or cache surviving a request lets a later request start from a tree an earlier request already modified")
    ex = wm.func("WriteTool.execute")
    binds = []
    for n in walk_no_nested(ex.node):
        if isinstance(n, ast.Assign) and any(isinstance(t, ast.Name) and t.id == "doc" for t in n.targets):
            binds.append(n)
        if isinstance(n, ast.Assign) and any(isinstance(t, ast.Tuple) and t.elts and isinstance(t.elts[0], ast.Name) and t.elts[0].id == "doc" for t in n.targets):
            binds.append(n)
    okb = bool(binds)
    GOOD = ("parse", "parse_with_warnings", "repair", "self._apply_changes", "self._localized_salvage")

    def fresh(v: ast.AST, depth: int = 0) -> bool:
        # a call of one of the readers / gated in-place steps, or a local every binding of which is such a call (or None)
        if isinstance(v, ast.Call):
            return ast.unparse(v.func) in GOOD
        if isinstance(v, ast.Name) and depth < 4:
            ds = []
            for a in walk_no_nested(ex.node):
                if isinstance(a, ast.Assign):
                    for t in a.targets:
                        if isinstance(t, ast.Name) and t.id == v.id:
                            ds.append(a.value)
                        elif isinstance(t, ast.Tuple) and t.elts and isinstance(t.elts[0], ast.Name) and t.elts[0].id == v.id:
                            ds.append(a.value)
            real = [d for d in ds if not (isinstance(d, ast.Constant) and d.value is None)]
            return bool(real) and all(fresh(d, depth + 1) for d in real)
        return False

    for b in binds:
        v = b.value
        src = ast.unparse(v.func) if isinstance(v, ast.Call) else None
        good = src in GOOD or fresh(v)
        okb = okb and good
        if not good:
            run.violation("R18.7", wm, ex.qualname, b, "the document being amended is obtained from something other than a fresh parse of the file's content (or the gated in-place steps)")
    run.instance("R18.7", wm.loc(ex.node), f"WriteTool.execute: `doc` is bound {len(binds)} time(s), always from parse / parse_with_warnings / repair / _apply_changes / salvage", ok=okb)

    # ---------------------------------------------------------------- R18.6
    cli = run.project.mod("cli.main").func("write")
    writes = list(am.ast_writes(cli, res))
    cons = list(am.constructions(cli))
    delegates = [n for n in walk_no_nested(cli.node) if isinstance(n, ast.Call) and ast.unparse(n.func).endswith("_apply_changes")]
    ok = bool(delegates) and not writes and not cons
    run.instance("R18.6", cli.module.loc(cli.node), f"cli write: delegates to _apply_changes={bool(delegates)}, own document writes={len(writes)}, node constructions={len(cons)}", ok=ok)
    if not ok:
        first = writes[0][0] if writes else cli.node.name
        st = first
        while isinstance(st, ast.AST) and not isinstance(st, ast.stmt):
            st = getattr(st, "_parent", None)
        run.violation("R18.6", cli.module, cli.qualname, "inline changes loop in `octave write --changes`", "the CLI applies --changes with its own loop instead of the tool's tri-state implementation: the DELETE sentinel is written as a value, a META{...} request replaces META, and list/dict values are stored unwrapped",
                      failing_input='octave write f.oct.md --changes \'{"A":{"$op":"DELETE"},"META":{"TYPE":"Y"},"L":["a","b"]}\' -> A::{\'$op\': \'DELETE\'}, other META fields gone, L::[\'a\', \'b\']', line=getattr(st, "lineno", 0) if isinstance(st, ast.AST) else 0)
    check_empty_block_header(run)


def check_normalize(run: Run, rule: str) -> None:
    """_normalize_value_for_ast: identity on scalars / None / zones, element-wise wrap of lists and dicts"""
    wm = run.project.mod("mcp.write")
    nf = wm.func("_normalize_value_for_ast")
    pn = nf.node.args.args[0].arg  # type: ignore[attr-defined]
    rets = [n for n in walk_no_nested(nf.node) if isinstance(n, ast.Return)]
    if len(rets) < 3:
        raise AnalysisError("_normalize_value_for_ast: fewer than 3 returns")
    for r in rets:
        v = r.value
        ok = False
        what = ""
        if is_name(v, pn):
            ok, what = True, "identity"
        elif isinstance(v, ast.Call) and ast.unparse(v.func) in ("ListValue", "InlineMap"):
            kw = {k.arg: k.value for k in v.keywords}
            inner = kw.get("items") or kw.get("pairs")
            comp = inner
            if isinstance(inner, ast.Name):
                for n2 in walk_no_nested(nf.node):
                    if isinstance(n2, ast.Assign) and any(is_name(t, inner.id) for t in n2.targets):
                        comp = n2.value
            if isinstance(comp, (ast.ListComp, ast.DictComp)) and len(comp.generators) == 1 and not comp.generators[0].ifs:
                elt = comp.elt if isinstance(comp, ast.ListComp) else comp.value
                it = comp.generators[0].iter
                it_ok = is_name(it, pn) or (isinstance(it, ast.Call) and ast.unparse(it.func) == f"{pn}.items")
                rec = isinstance(elt, ast.Call) and ast.unparse(elt.func) == "_normalize_value_for_ast" and len(elt.args) == 1
                ok, what = it_ok and rec, "element-wise wrap"
        run.instance(rule, wm.loc(r), f"_normalize_value_for_ast: `{norm(r)}` is {what or 'NOT identity / element-wise wrap'}", ok=ok)
        if not ok:
            run.violation(rule, wm, nf.qualname, r, "_normalize_value_for_ast returns something other than the value itself or an element-wise ListValue/InlineMap wrap: the value (or its type) written differs from the value requested")
    # the identity return must be reachable for every non-container kind: no isinstance test on scalar types / None
    scalar_tests = [n for n in walk_no_nested(nf.node) if isinstance(n, ast.Call) and ast.unparse(n.func) == "isinstance" and len(n.args) == 2 and any(x in ast.unparse(n.args[1]) for x in ("int", "float", "str", "bool", "bytes"))]
    none_tests = [n for n in walk_no_nested(nf.node) if isinstance(n, ast.Compare) and isinstance(n.ops[0], (ast.Is, ast.IsNot)) and isinstance(n.comparators[0], ast.Constant) and n.comparators[0].value is None]
    ok = not scalar_tests and not none_tests
    run.instance(rule, wm.loc(nf.node), "_normalize_value_for_ast: no scalar-kind or None special case", ok=ok)
    for n in scalar_tests + none_tests:
        run.violation(rule, wm, nf.qualname, n, "_normalize_value_for_ast special-cases a scalar kind or None: scalars and null must pass through unchanged")



def _absent_skips_one(run: Run) -> None:
    em = run.project.mod("core.emitter")
    n = 0

    def absent_test(t: ast.AST) -> bool:
        # the test itself (or its negation, or a conjunct / disjunct of it) asks whether the element is Absent - not a predicate
        # over other values (`any(not is_absent(v) for v in ...)`)
        if isinstance(t, ast.UnaryOp) and isinstance(t.op, ast.Not):
            return absent_test(t.operand)
        if isinstance(t, ast.BoolOp):
            return any(absent_test(v) for v in t.values)
        return (isinstance(t, ast.Call) and isinstance(t.func, ast.Name) and t.func.id == "is_absent") or (isinstance(t, ast.Call) and isinstance(t.func, ast.Name) and t.func.id == "isinstance" and len(t.args) == 2 and "Absent" in ast.unparse(t.args[1]))

    def leaves(stmts: list[ast.stmt]) -> ast.stmt | None:
        """a return / break / raise executed when the branch is taken (not one nested under a further condition or loop)"""
        for st in stmts:
            if isinstance(st, (ast.Return, ast.Break, ast.Raise)):
                return st
            if isinstance(st, ast.Continue):
                return None
        return None

    for fi in em.functions.values():
        for loop in [x for x in walk_no_nested(fi.node) if isinstance(x, (ast.For, ast.While))]:
            for t in [x for b in loop.body for x in ast.walk(b) if isinstance(x, ast.If)]:
                # only tests that are about the loop's own element, and not inside a nested loop of their own
                inner = any(t in list(ast.walk(l2)) for b in loop.body for l2 in ast.walk(b) if isinstance(l2, (ast.For, ast.While)))
                if inner or not absent_test(t.test):
                    continue
                neg = isinstance(t.test, ast.UnaryOp) and isinstance(t.test.op, ast.Not)
                branch = t.orelse if neg else t.body
                bad = leaves(branch)
                n += 1
                run.instance("R18.9", em.loc(t), f"{fi.qualname}: the Absent branch of `{norm(t.test)[:60]}` skips this element only", ok=bad is None)
                if bad is not None:
                    run.violation("R18.9", em, fi.qualname, t.test, f"inside the loop of {fi.qualname} the branch for an Absent value leaves the loop (`{norm(bad)[:40]}`): every sibling after an absent field is dropped from the output although no change named it", line=t.lineno)
    if n < 3:
        raise AnalysisError(f"emitter.py: only {n} Absent test(s) inside loops found")


def check_quote_str_only(run: Run, rule: str) -> None:
    """every site of the emitter that wraps a value text in double quotes is control-dependent on isinstance(<value>, str);
    when the wrapping lives in a helper (a function that returns '"' + f(param) + '"'), the obligation is checked at every
    call of the helper instead"""
    em = run.project.mod("core.emitter")
    n_q = 0

    def str_only(t, val) -> bool:
        ops = t.values if isinstance(t, ast.BoolOp) and isinstance(t.op, ast.And) else [t]
        return val is True and any(isinstance(o, ast.Call) and ast.unparse(o.func) == "isinstance" and len(o.args) == 2 and ast.unparse(o.args[1]) == "str" for o in ops)

    def is_quote_fstring(n: ast.AST) -> bool:
        return isinstance(n, ast.JoinedStr) and len(n.values) >= 2 and isinstance(n.values[0], ast.Constant) and n.values[0].value == '"' and isinstance(n.values[-1], ast.Constant) and n.values[-1].value == '"'

    def guarded(fi, node) -> bool:
        cfg = CFG(fi.node)
        nodes = cfg.node_for_stmt_containing(node)
        conds = [c for x in nodes for c in branch_conditions(cfg, x)]
        if any(str_only(t, val) for t, val in conds):
            return True
        # `isinstance(x, str) and ...` earlier in the same boolean expression / conditional expression
        cur = node
        while cur is not None and not isinstance(cur, ast.stmt):
            par = getattr(cur, "_parent", None)
            if isinstance(par, ast.BoolOp) and isinstance(par.op, ast.And) and cur in par.values:
                if any(isinstance(o, ast.Call) and ast.unparse(o.func) == "isinstance" and len(o.args) == 2 and ast.unparse(o.args[1]) == "str" for o in par.values[: par.values.index(cur)]):
                    return True
            cur = par
        return False

    # quoting helpers: the f-string is returned and its function has no isinstance(str) guard of its own
    helpers: dict[str, object] = {}
    for fi in em.functions.values():
        for n in walk_no_nested(fi.node):
            if is_quote_fstring(n) and isinstance(getattr(n, "_parent", None), ast.Return) and not guarded(fi, n):
                params = [a.arg for a in fi.node.args.args]  # type: ignore[attr-defined]
                if params and "." not in fi.qualname:
                    helpers[fi.qualname] = fi
    for fi in em.functions.values():
        for n in walk_no_nested(fi.node):
            if is_quote_fstring(n) and fi.qualname not in helpers:
                n_q += 1
                ok = guarded(fi, n)
                run.instance(rule, em.loc(n), f"{fi.qualname}: the value is wrapped in quotes only under isinstance(<value>, str)", ok=ok)
                if not ok:
                    run.violation(rule, em, fi.qualname, n, "a value is wrapped in quotes without having been tested to be a str: null / true / 3 would be written as the strings \"null\" / \"true\" / \"3\"")
            if isinstance(n, ast.Call) and isinstance(n.func, ast.Name) and n.func.id in helpers and fi.qualname not in helpers:
                n_q += 1
                ok = guarded(fi, n)
                run.instance(rule, em.loc(n), f"{fi.qualname}: `{n.func.id}(...)` (quotes its argument) is called only under isinstance(<value>, str)", ok=ok)
                if not ok:
                    run.violation(rule, em, fi.qualname, n, f"`{n.func.id}` wraps its argument in quotes and is called here without the value having been tested to be a str: null / true / 3 would be written as the strings \"null\" / \"true\" / \"3\"")
    for h in helpers:
        run.instance(rule, em.loc(helpers[h].node), f"{h}: quoting helper - the str test is required at its call sites", nontrivial=False)  # type: ignore[attr-defined]
    if n_q < 2:
        raise AnalysisError(f"emitter.py: only {n_q} quoting site(s) found")

