"""C08 Validator verdicts follow the documented constraint semantics (structural clauses)."""
from __future__ import annotations

import ast

from ..cfg import CFG, atomic_conditions, branch_conditions
from ..fsmodel import is_name, names_in
from ..report import Run
from ..resolve import Resolver
from ..source import normalise_locals, AnalysisError, FuncInfo, norm, walk_no_nested
from .c04 import check_bool_before_int
from .c11 import interval_from_conditions


_RESULT_HELPERS: dict[str, bool] = {}  # module functions whose every return is ValidationResult(valid=<same const>)


def _learn_result_helpers(cm) -> None:
    _RESULT_HELPERS.clear()
    for q, fi in cm.functions.items():
        if "." in q:
            continue
        rets = [r for r in walk_no_nested(fi.node) if isinstance(r, ast.Return)]
        vals = {_result_valid(r.value) for r in rets}
        if rets and len(vals) == 1 and None not in vals:
            _RESULT_HELPERS[q] = vals.pop()


def _result_valid(node: ast.AST | None) -> bool | None:
    """ValidationResult(valid=<const>) -> const ; a call of a helper that always builds such a result -> that const; else None"""
    if isinstance(node, ast.Call) and isinstance(node.func, ast.Name) and node.func.id in _RESULT_HELPERS:
        return _RESULT_HELPERS[node.func.id]
    if isinstance(node, ast.Call) and ast.unparse(node.func) == "ValidationResult":
        for k in node.keywords:
            if k.arg == "valid" and isinstance(k.value, ast.Constant):
                return bool(k.value.value)
        if node.args and isinstance(node.args[0], ast.Constant):
            return bool(node.args[0].value)
    return None


def check(run: Run) -> None:
    res = Resolver(run.project)
    cm = run.project.mod("core.constraints")
    vm = run.project.mod("core.validator")
    _learn_result_helpers(cm)
    run.rule("R08.1", "chain shape: conflicts are checked first and reject; then every member is evaluated on the chain's own value on every iteration (no skip, no early accept); a failing member's result is returned; the only accepting return follows the completed loop", 5)
    run.rule("R08.2", "members are pure: no evaluate() of a Constraint stores into self or the value or calls a mutator on them (so members commute and the verdict is order-independent)", 15)
    run.rule("R08.3", "comparator shapes: RANGE rejects exactly `v < min or v > max`; MAX_LENGTH rejects `len > max`; MIN_LENGTH rejects `len < min`; both length constraints reject non str|list first; REQ rejects None and \"\"; CONST rejects `!=`", 8)
    run.rule("R08.4", "bool is never a number: a bool test precedes the numeric test in TYPE, RANGE and the META type check", 3)
    run.rule("R08.5", "registry: every Constraint subclass is constructible from ConstraintChain.parse; detect_conflicts covers REQ∧OPT, CONST≠CONST and CONST∉ENUM", 17)
    run.rule("R08.6", "document level: unknown-field policy dispatch is exhaustive with the right severities and names the field; an unparsable policy falls back to REJECT; a missing REQ field yields E003 naming the field and is tested by `value is None`; every error of the chain is reported", 8)
    run.rule("R08.7", "severity is honoured: consumers that turn Validator.validate() output into a blocking status look at severity (a WARN policy must not make a document INVALID)", 4)
    run.rule("R08.8", "ENUM shape: exact membership accepts first; otherwise candidates are the allowed values that start with the value; 0 candidates and >1 candidates reject (E005 / E006); exactly one accepts", 4)

    run.rule("R08.9", "TYPE by value kind: the table TypeConstraint.evaluate tests the value against maps STRING -> str, NUMBER -> int|float, BOOLEAN -> bool, LIST -> list and nothing else; a kind that is not in the table is rejected; the accepting return is reached only past the false edge of `not isinstance(value, <table entry>)`", 5)
    run.rule("R08.10", "DATE / ISO8601 are decided by a calendar parse: every accepting return of DateConstraint.evaluate lies past a shape test whose language is exactly dddd-dd-dd and past a completed calendar parse (fromisoformat / strptime) of the same text whose ValueError rejects; ISO8601 likewise without the shape test", 4)
    run.rule("R08.11", "REGEX matches from the start of the value: the pattern is compiled without flags, applied with match / fullmatch (never search), to str(value), and a failed match reaches only the rejecting return", 3)
    chain = cm.func("ConstraintChain.evaluate")
    _chain_shape(run, cm, chain)
    _members_pure(run, res, cm)
    _comparators(run, cm)
    check_bool_before_int(run, "R08.4", [("core.constraints", "TypeConstraint.evaluate"), ("core.constraints", "RangeConstraint.evaluate"), ("core.validator", "Validator._validate_type")])
    _registry(run, res, cm)
    _document_level(run, vm)
    _severity(run, res)
    _enum_shape(run, cm)
    _type_table(run, cm)
    _sibling_kind_tables(run)
    _calendar_gates(run, cm)
    _regex_member(run, cm)
    _splitter_quotes(run, cm)


# ---------------------------------------------------------------- R08.1
def _chain_shape_lazy(run: Run, cm, fi: FuncInfo, cfg: CFG, pvalue: str, ppath: str) -> bool:
    """the same chain shape written without a statement loop:
        results = (c.evaluate(value, path) for c in self.constraints)            # every member, on the chain's own value, no filter
        return next((r for r in results if not r.valid), ValidationResult(valid=True))   # first failing result, else accept
    Returns False when the function does not have this form (the caller then reports the missing loop)."""
    def member_results(e: ast.AST) -> bool:
        if isinstance(e, ast.Name):
            ds = [a.value for a in walk_no_nested(fi.node) if isinstance(a, ast.Assign) and len(a.targets) == 1 and is_name(a.targets[0], e.id)]
            if len(ds) == 1 and isinstance(ds[0], ast.List) and not ds[0].elts:
                # a list filled by one loop `for c in self.constraints: acc.append(c.evaluate(value, path))` (every member, no
                # filter, on the chain's own value) - the eager reading of a generator of member results
                fills = [n for n in walk_no_nested(fi.node) if isinstance(n, ast.Call) and isinstance(n.func, ast.Attribute) and n.func.attr in ("append", "extend", "insert") and is_name(n.func.value, e.id)]
                if len(fills) == 1 and fills[0].func.attr == "append":
                    st = getattr(fills[0], "_parent", None)
                    lp = getattr(st, "_parent", None)
                    c = fills[0].args[0] if fills[0].args else None
                    return (isinstance(st, ast.Expr) and isinstance(lp, ast.For) and lp.body == [st] and not lp.orelse and ast.unparse(lp.iter) == "self.constraints" and isinstance(lp.target, ast.Name)
                            and isinstance(c, ast.Call) and isinstance(c.func, ast.Attribute) and c.func.attr == "evaluate" and is_name(c.func.value, lp.target.id)
                            and [ast.unparse(a) for a in c.args] + [ast.unparse(k.value) for k in c.keywords] == [pvalue, ppath])
                return False
            return len(ds) == 1 and member_results(ds[0])
        if isinstance(e, ast.Call) and isinstance(e.func, ast.Attribute) and is_name(e.func.value, "self") and [ast.unparse(a) for a in e.args] + [ast.unparse(k.value) for k in e.keywords] == [pvalue, ppath]:
            # a generator method of the chain: `for c in self.constraints: yield c.evaluate(<its value param>, <its path param>)`
            h = cm.functions.get(f"{fi.cls}.{e.func.attr}")
            if h is not None:
                hp = [a.arg for a in h.node.args.args][1:]  # type: ignore[attr-defined]
                body = [b for b in h.node.body if not (isinstance(b, ast.Expr) and isinstance(b.value, ast.Constant))]  # type: ignore[attr-defined]
                if len(hp) == 2 and len(body) == 1 and isinstance(body[0], ast.For) and ast.unparse(body[0].iter) == "self.constraints" and isinstance(body[0].target, ast.Name) and len(body[0].body) == 1 and not body[0].orelse:
                    y = body[0].body[0]
                    if isinstance(y, ast.Expr) and isinstance(y.value, ast.Yield) and isinstance(y.value.value, ast.Call):
                        c = y.value.value
                        return isinstance(c.func, ast.Attribute) and c.func.attr == "evaluate" and is_name(c.func.value, body[0].target.id) and [ast.unparse(a) for a in c.args] + [ast.unparse(k.value) for k in c.keywords] == hp
            return False
        if not (isinstance(e, (ast.GeneratorExp, ast.ListComp)) and len(e.generators) == 1):
            return False
        g = e.generators[0]
        if g.ifs or ast.unparse(g.iter) != "self.constraints" or not isinstance(g.target, ast.Name):
            return False
        c = e.elt
        return isinstance(c, ast.Call) and isinstance(c.func, ast.Attribute) and c.func.attr == "evaluate" and is_name(c.func.value, g.target.id) and [ast.unparse(a) for a in c.args] + [ast.unparse(k.value) for k in c.keywords] == [pvalue, ppath]

    def first_failing(v: ast.AST) -> bool:
        if isinstance(v, ast.Call) and is_name(v.func, "next") and len(v.args) == 2 and isinstance(v.args[0], ast.GeneratorExp) and len(v.args[0].generators) == 1:
            ge = v.args[0]
            g = ge.generators[0]
            return isinstance(g.target, ast.Name) and is_name(ge.elt, g.target.id) and len(g.ifs) == 1 and ast.unparse(g.ifs[0]) == f"not {g.target.id}.valid" and member_results(g.iter)
        return False

    finals = []
    for rn in [n for n in cfg.nodes if isinstance(n.ast, ast.Return)]:
        v = rn.ast.value  # type: ignore[union-attr]
        if first_failing(v):
            finals.append((rn, v))
    if not finals:
        # the two-step spelling: `f = next(<failing results>, None); if f is not None: return f; return <accepting result>`
        for a in walk_no_nested(fi.node):
            if isinstance(a, ast.Assign) and len(a.targets) == 1 and isinstance(a.targets[0], ast.Name) and first_failing(a.value) and isinstance(a.value.args[1], ast.Constant) and a.value.args[1].value is None:  # type: ignore[union-attr]
                var = a.targets[0].id
                blk = getattr(a, "_parent", None)
                body = getattr(blk, "body", [])
                i = body.index(a) if a in body else -1
                if i >= 0 and i + 2 < len(body) + 0 and isinstance(body[i + 1], ast.If) and ast.unparse(body[i + 1].test) == f"{var} is not None" and len(body[i + 1].body) == 1 and isinstance(body[i + 1].body[0], ast.Return) and is_name(body[i + 1].body[0].value, var) and not body[i + 1].orelse and isinstance(body[i + 2], ast.Return):
                    # read as `return next(<failing results>, <accepting result>)`
                    rnode = [n for n in cfg.nodes if n.ast is body[i + 2]]
                    if rnode:
                        synth = ast.Call(func=ast.Name(id="next", ctx=ast.Load()), args=[a.value.args[0], body[i + 2].value], keywords=[])  # type: ignore[union-attr]
                        finals.append((rnode[0], synth))
                        two_step_return = body[i + 1].body[0]
    if len(finals) != 1:
        return False
    rn, call = finals[0]
    run.instance("R08.1", cm.loc(rn.ast), "ConstraintChain.evaluate: every member is evaluated lazily on the chain's own value (generator over self.constraints, no filter)", ok=not _rebound(fi, pvalue))
    if _rebound(fi, pvalue):
        run.violation("R08.1", cm, fi.qualname, rn.ast, "the members are evaluated on a value that the function rebinds: they could see something other than the chain's own value")
    conds = branch_conditions(cfg, rn.id)
    cvars = {n.targets[0].id for n in walk_no_nested(fi.node) if isinstance(n, ast.Assign) and isinstance(n.value, ast.Call) and ast.unparse(n.value.func) == "self.detect_conflicts" and isinstance(n.targets[0], ast.Name)}
    ok = any(isinstance(t, ast.Name) and t.id in cvars and val is False for t, val in conds)
    run.instance("R08.1", cm.loc(rn.ast), "the members are evaluated only when detect_conflicts() returned nothing", ok=ok)
    if not ok:
        run.violation("R08.1", cm, fi.qualname, "conflict check before members", "members are evaluated without detect_conflicts() having been called and found empty: a conflicting chain (REQ∧OPT, CONST≠CONST, CONST∉ENUM) could accept a value")
    for n in cfg.nodes:
        if n.kind == "test" and isinstance(n.ast, ast.Name) and n.ast.id in cvars:
            rets = [cfg.nodes[s] for s in _reach_returns(cfg, [s for s, lab in cfg.succ[n.id] if lab == "t"], stop={rn.id})]
            okc = bool(rets) and all(_result_valid(r.ast.value) is False for r in rets)  # type: ignore[union-attr]
            run.instance("R08.1", cm.loc(n.ast), "a non-empty conflict list returns an invalid result", ok=okc)
            if not okc:
                run.violation("R08.1", cm, fi.qualname, n.ast, "a declared conflict does not lead to an invalid result")
    run.instance("R08.1", cm.loc(rn.ast), "the first failing member's result is returned as it is (next over `not r.valid`)", ok=True)
    okd = _result_valid(call.args[1]) is True
    run.instance("R08.1", cm.loc(rn.ast), "the accepting result is only the default of next(): reached when no member failed", ok=okd)
    if not okd:
        run.violation("R08.1", cm, fi.qualname, rn.ast, "when no member fails the chain does not return an accepting result")
    # no other accepting return
    for other in [n for n in cfg.nodes if isinstance(n.ast, ast.Return) and n is not rn]:
        if "two_step_return" in locals() and other.ast is locals()["two_step_return"]:
            continue  # `return f` of the two-step spelling: the first failing result
        if _result_valid(other.ast.value) is not False:  # type: ignore[union-attr]
            run.violation("R08.1", cm, fi.qualname, other.ast, "ConstraintChain.evaluate can accept before every member has been evaluated (early `valid=True` return)")  # type: ignore[arg-type]
    return True


def _chain_shape(run: Run, cm, fi: FuncInfo) -> None:
    cfg = CFG(fi.node)
    pvalue, ppath = [a.arg for a in fi.node.args.args][1:3]  # type: ignore[attr-defined]
    loops = [n for n in cfg.nodes if n.kind == "iter" and ast.unparse(n.ast) == "self.constraints"]  # type: ignore[arg-type]
    if _chain_shape_lazy(run, cm, fi, cfg, pvalue, ppath):
        return
    if len(loops) != 1:
        run.instance("R08.1", cm.loc(fi.node), "ConstraintChain.evaluate: exactly one loop over self.constraints", ok=False)
        run.violation("R08.1", cm, fi.qualname, "for constraint in self.constraints", f"ConstraintChain.evaluate has {len(loops)} loops over self.constraints (expected one loop that evaluates every member)")
        return
    lp = loops[0]
    loop_stmt = lp.owner
    lvar = loop_stmt.target.id if isinstance(loop_stmt.target, ast.Name) else None  # type: ignore[union-attr]
    # conflicts first
    conds = branch_conditions(cfg, lp.id)
    cvars = {n.targets[0].id for n in walk_no_nested(fi.node) if isinstance(n, ast.Assign) and isinstance(n.value, ast.Call) and ast.unparse(n.value.func) == "self.detect_conflicts" and isinstance(n.targets[0], ast.Name)}
    ok = any(isinstance(t, ast.Name) and t.id in cvars and val is False for t, val in conds)
    run.instance("R08.1", cm.loc(loop_stmt), "the member loop runs only when detect_conflicts() returned nothing", ok=ok)
    if not ok:
        run.violation("R08.1", cm, fi.qualname, "conflict check before members", "members are evaluated without detect_conflicts() having been called and found empty: a conflicting chain (REQ∧OPT, CONST≠CONST, CONST∉ENUM) could accept a value")
    else:
        # the conflict branch rejects
        for n in cfg.nodes:
            if n.kind == "test" and isinstance(n.ast, ast.Name) and n.ast.id in cvars:
                rets = [cfg.nodes[s] for s in _reach_returns(cfg, [s for s, lab in cfg.succ[n.id] if lab == "t"], stop={lp.id})]
                okc = bool(rets) and all(_result_valid(r.ast.value) is False for r in rets)  # type: ignore[union-attr]
                run.instance("R08.1", cm.loc(n.ast), "a non-empty conflict list returns an invalid result", ok=okc)
                if not okc:
                    run.violation("R08.1", cm, fi.qualname, n.ast, "a declared conflict does not lead to an invalid result")
    # body: first statement evaluates the member on (value, path)
    body = loop_stmt.body  # type: ignore[union-attr]
    first = body[0] if body else None
    evar = None
    ok = False
    if isinstance(first, ast.Assign) and isinstance(first.value, ast.Call) and isinstance(first.value.func, ast.Attribute) and first.value.func.attr == "evaluate" and is_name(first.value.func.value, lvar or "\0"):
        args = [ast.unparse(a) for a in first.value.args] + [ast.unparse(k.value) for k in first.value.keywords]
        ok = args == [pvalue, ppath] and not _rebound(fi, pvalue)
        evar = first.targets[0].id if isinstance(first.targets[0], ast.Name) else None
    run.instance("R08.1", cm.loc(loop_stmt), f"every iteration starts with `{lvar}.evaluate({pvalue}, {ppath})` on the chain's own value", ok=ok)
    if not ok:
        run.violation("R08.1", cm, fi.qualname, first or loop_stmt, "the member loop does not evaluate every member on the chain's own (unmodified) value as its first step: members could be skipped or see a different value")
    # no iteration is cut short, nothing accepts inside the loop, and the member's verdict is not ignored
    jumps = [x for st in body for x in ast.walk(st) if isinstance(x, (ast.Break, ast.Continue))]
    run.instance("R08.1", cm.loc(loop_stmt), "the member loop contains no break / continue", ok=not jumps)
    for j in jumps:
        run.violation("R08.1", cm, fi.qualname, j, "the member loop is cut short (break/continue): a later member that rejects the value is never consulted")
    inner_rets = [n for n in cfg.nodes if isinstance(n.ast, ast.Return) and any(n.ast is x for st in body for x in ast.walk(st))]
    used = False
    for rn in inner_rets:
        conds2 = branch_conditions(cfg, rn.id)
        failing = any((isinstance(t, ast.UnaryOp) and isinstance(t.op, ast.Not) and ast.unparse(t.operand) == f"{evar}.valid" and val is True) or (ast.unparse(t) == f"{evar}.valid" and val is False) for t, val in conds2)
        used = used or failing
        v = rn.ast.value  # type: ignore[union-attr]
        okr = failing and (is_name(v, evar or "\0") or _result_valid(v) is False)
        run.instance("R08.1", cm.loc(rn.ast), f"a return inside the member loop hands back a failing result (under `not {evar}.valid`)", ok=okr)
        if not okr:
            run.violation("R08.1", cm, fi.qualname, rn.ast, "a return inside the member loop is not the rejection of a failing member (early accept, or a failing result replaced by something else)")
    if not used:
        # accumulation idiom: errors gathered and decided after the loop
        acc = [x for st in body for x in ast.walk(st) if isinstance(x, ast.Call) and isinstance(x.func, ast.Attribute) and x.func.attr in ("extend", "append") and evar and evar in names_in(x)]
        used = bool(acc)
    run.instance("R08.1", cm.loc(loop_stmt), "each member's verdict is acted upon (fail-fast return or accumulation)", ok=used)
    if not used:
        run.violation("R08.1", cm, fi.qualname, loop_stmt, "the result of evaluating a member is ignored: a rejecting member does not make the chain reject")
    # all returns of the function
    for rn in [n for n in cfg.nodes if isinstance(n.ast, ast.Return)]:
        v = rn.ast.value  # type: ignore[union-attr]
        valid = _result_valid(v)
        in_loop = any(rn.ast is x for st in body for x in ast.walk(st))
        if in_loop:
            continue
        if valid is True:
            # must be after the loop completed: dominated by the loop head, and reached by its 'done' edge only
            done_succ = [s for s, lab in cfg.succ[lp.id] if lab == "done"]
            ok = cfg.dominated_by(rn.id, lp.id) and all(any(s == rn.id or cfg.path_exists(s, rn.id, {"x"}) for s in done_succ) for _ in [0]) and not any(cfg.path_exists(s, rn.id, {"x"}) for s, lab in cfg.succ[lp.id] if lab == "loop" and False)
            run.instance("R08.1", cm.loc(rn.ast), "the accepting return follows the completed member loop", ok=ok)
            if not ok:
                run.violation("R08.1", cm, fi.qualname, rn.ast, "ConstraintChain.evaluate can accept before every member has been evaluated (early `valid=True` return)")
        elif valid is False:
            conds2 = branch_conditions(cfg, rn.id)
            ok = any(isinstance(t, ast.Name) and t.id in cvars and val is True for t, val in conds2)
            run.instance("R08.1", cm.loc(rn.ast), "a rejecting return outside the loop belongs to the conflict check", ok=ok)
            if not ok:
                run.violation("R08.1", cm, fi.qualname, rn.ast, "ConstraintChain.evaluate rejects outside the conflict check and the member loop")
        else:
            run.instance("R08.1", cm.loc(rn.ast), f"return `{norm(rn.ast)}`", ok=False)
            run.violation("R08.1", cm, fi.qualname, rn.ast, "ConstraintChain.evaluate returns something that is neither the conflict rejection, a failing member's result nor the final acceptance")


def _rebound(fi: FuncInfo, name: str) -> bool:
    return any(isinstance(n, ast.Name) and n.id == name and isinstance(n.ctx, ast.Store) for n in walk_no_nested(fi.node))


def _reach_returns(cfg: CFG, starts, stop=frozenset()):
    out, seen, stack = [], set(), list(starts)
    while stack:
        n = stack.pop()
        if n in seen or n in stop:
            continue
        seen.add(n)
        if isinstance(cfg.nodes[n].ast, ast.Return):
            out.append(n)
            continue
        for s, lab in cfg.succ[n]:
            if lab != "x":
                stack.append(s)
    return out


# ---------------------------------------------------------------- R08.2
def _constraint_classes(res: Resolver, cm):
    base = cm.cls("Constraint")
    return [ci for ci in cm.classes.values() if ci is not base and base in res.mro(ci)]


def _members_pure(run: Run, res: Resolver, cm) -> None:
    classes = _constraint_classes(res, cm)
    if len(classes) < 13:
        raise AnalysisError(f"only {len(classes)} Constraint subclasses found")
    muts = {"append", "extend", "insert", "remove", "pop", "clear", "update", "setdefault", "add", "discard", "sort", "reverse"}
    for ci in classes:
        ev = ci.methods.get("evaluate")
        if ev is None:
            run.instance("R08.2", cm.loc(ci.node), f"{ci.name}: inherits evaluate", ok=True, nontrivial=False)
            continue
        pval = ev.node.args.args[1].arg  # type: ignore[attr-defined]
        bad = []
        for n in walk_no_nested(ev.node):
            if isinstance(n, (ast.Attribute, ast.Subscript)) and isinstance(n.ctx, (ast.Store, ast.Del)):
                b = n.value
                while isinstance(b, (ast.Attribute, ast.Subscript)):
                    b = b.value
                if isinstance(b, ast.Name) and b.id in ("self", pval):
                    bad.append(n)
            if isinstance(n, ast.Call) and isinstance(n.func, ast.Attribute) and n.func.attr in muts:
                b = n.func.value
                while isinstance(b, (ast.Attribute, ast.Subscript)):
                    b = b.value
                if isinstance(b, ast.Name) and b.id in ("self", pval):
                    bad.append(n)
            if isinstance(n, ast.Global) or isinstance(n, ast.Nonlocal):
                bad.append(n)
        run.instance("R08.2", cm.loc(ev.node), f"{ci.name}.evaluate writes neither self nor the value", ok=not bad)
        for n in bad:
            run.violation("R08.2", cm, ev.qualname, n, f"{ci.name}.evaluate has a side effect on the constraint or on the value: the chain's verdict can depend on member order or on earlier evaluations")


# ---------------------------------------------------------------- R08.3
def _rejecting_ifs(fi: FuncInfo):
    """(If node) whose body directly returns ValidationResult(valid=False ...)"""
    for n in walk_no_nested(fi.node):
        if isinstance(n, ast.If) and any(isinstance(s, ast.Return) and _result_valid(s.value) is False for s in n.body):
            yield n


def _norm_cmp(c: ast.Compare, bound_attrs: set[str]) -> tuple[str, str] | None:
    """normalise `x OP self.<bound>` / `self.<bound> OP x` to (op as seen from the value side, bound attr)"""
    if len(c.ops) != 1:
        return None
    l, r = c.left, c.comparators[0]
    flip = {ast.Lt: ast.Gt, ast.Gt: ast.Lt, ast.LtE: ast.GtE, ast.GtE: ast.LtE, ast.Eq: ast.Eq, ast.NotEq: ast.NotEq}
    def battr(e):
        return e.attr if isinstance(e, ast.Attribute) and is_name(e.value, "self") and e.attr in bound_attrs else None
    if battr(r):
        return type(c.ops[0]).__name__, battr(r)
    if battr(l):
        return flip.get(type(c.ops[0]), type(c.ops[0])).__name__, battr(l)
    return None


def _comparators(run: Run, cm) -> None:
    specs = [
        ("RangeConstraint", {"min_value": "Lt", "max_value": "Gt"}, "Or"),
        ("MaxLengthConstraint", {"max_length": "Gt"}, None),
        ("MinLengthConstraint", {"min_length": "Lt"}, None),
    ]
    for cls, want, joiner in specs:
        fi = cm.func(f"{cls}.evaluate")
        found: dict[str, list[str]] = {}
        joined_ok = True
        for iff in _rejecting_ifs(fi):
            cmps = [c for c in ast.walk(iff.test) if isinstance(c, ast.Compare)]
            hits = [(c, _norm_cmp(c, set(want))) for c in cmps]
            hits = [(c, h) for c, h in hits if h]
            if not hits:
                continue
            if joiner == "Or" and len(hits) > 1:
                joined_ok = isinstance(iff.test, ast.BoolOp) and isinstance(iff.test.op, ast.Or) and len(iff.test.values) == len(hits)
            elif len(hits) == 1:
                joined_ok = joined_ok and iff.test is hits[0][0]
            for c, (op, attr) in hits:
                found.setdefault(attr, []).append(op)
        for attr, op in want.items():
            got = found.get(attr, [])
            ok = got == [op] and joined_ok
            run.instance("R08.3", cm.loc(fi.node), f"{cls}: rejects exactly when value {'<' if op == 'Lt' else '>'} self.{attr} (found {got})", ok=ok)
            if not ok:
                run.violation("R08.3", cm, fi.qualname, f"bound test on self.{attr}", f"{cls} compares with self.{attr} using {got or 'no test'} instead of the strict {op}: the documented inclusive bound would be exclusive, or the bound is not enforced (or is conjoined with another condition)",
                              line=fi.node.lineno)
    for cls in ("MaxLengthConstraint", "MinLengthConstraint"):
        fi = cm.func(f"{cls}.evaluate")
        first = [s for s in fi.node.body if not (isinstance(s, ast.Expr) and isinstance(s.value, ast.Constant))][0]
        ok = isinstance(first, ast.If) and ast.unparse(first.test).replace(" ", "") in ("notisinstance(value,str|list)", "notisinstance(value,(str,list))") and any(isinstance(s, ast.Return) and _result_valid(s.value) is False for s in first.body)
        run.instance("R08.3", cm.loc(fi.node), f"{cls}: rejects anything that is not a str or list first", ok=ok)
        if not ok:
            run.violation("R08.3", cm, fi.qualname, "not isinstance(value, str | list) -> reject", f"{cls} no longer rejects non-string, non-list values before measuring a length")
    req = cm.func("RequiredConstraint.evaluate")
    t = [i.test for i in _rejecting_ifs(req)]
    ok = len(t) == 1 and ast.unparse(t[0]) in ("value is None or value == ''", "value == '' or value is None")
    run.instance("R08.3", cm.loc(req.node), f"REQ rejects exactly None and the empty string (test: {ast.unparse(t[0]) if t else None})", ok=ok)
    if not ok:
        run.violation("R08.3", cm, req.qualname, "value is None or value == ''", "REQ's emptiness test is no longer `value is None or value == \"\"` (False, 0 or [] would be 'missing', or \"\" would pass)")
    const = cm.func("ConstConstraint.evaluate")
    t = [i.test for i in _rejecting_ifs(const)]
    ok = len(t) == 1 and ast.unparse(t[0]) in ("value != self.const_value", "self.const_value != value", "not value == self.const_value")
    run.instance("R08.3", cm.loc(const.node), f"CONST rejects exactly `value != self.const_value` (test: {ast.unparse(t[0]) if t else None})", ok=ok)
    if not ok:
        run.violation("R08.3", cm, const.qualname, "value != self.const_value", "CONST no longer rejects by plain inequality with its constant")
    # every evaluate's last statement accepts, and accepts nowhere under a negated/rejecting test: structural sanity
    for cls in ("RangeConstraint", "MaxLengthConstraint", "MinLengthConstraint", "RequiredConstraint", "ConstConstraint"):
        fi = cm.func(f"{cls}.evaluate")
        last = fi.node.body[-1]
        ok = isinstance(last, ast.Return) and _result_valid(last.value) is True
        accepts = [n for n in walk_no_nested(fi.node) if isinstance(n, ast.Return) and _result_valid(n.value) is True]
        ok = ok and len(accepts) == 1
        run.instance("R08.3", cm.loc(fi.node), f"{cls}: the single accepting return is the last statement (after every rejecting test)", ok=ok)
        if not ok:
            run.violation("R08.3", cm, fi.qualname, "single accepting return at the end", f"{cls}.evaluate accepts somewhere other than after all of its rejecting tests")


# ---------------------------------------------------------------- R08.5
def _registry(run: Run, res: Resolver, cm) -> None:
    parse = cm.func("ConstraintChain.parse")
    constructed = {ast.unparse(n.func) for n in walk_no_nested(parse.node) if isinstance(n, ast.Call) and isinstance(n.func, ast.Name)}
    # ... in helpers of the same module that parse calls (extracted argument parsers) ...
    for n in walk_no_nested(parse.node):
        if isinstance(n, ast.Call):
            for c in res.resolve_call(parse, n):
                if c.kind == "repo" and c.func is not None and c.func.module is cm and c.func is not parse:
                    constructed |= {ast.unparse(x.func) for x in walk_no_nested(c.func.node) if isinstance(x, ast.Call) and isinstance(x.func, ast.Name)}
    # ... and through a keyword -> class table: `cls = TABLE.get(part)` / `TABLE[part]` followed by `cls()`
    for n in walk_no_nested(parse.node):
        if isinstance(n, ast.NamedExpr) and isinstance(n.target, ast.Name):
            n = ast.Assign(targets=[n.target], value=n.value)  # `(f := TABLE.get(part)) is not None` binds like an assignment
        if isinstance(n, ast.Assign) and len(n.targets) == 1 and isinstance(n.targets[0], ast.Name):
            v = n.value
            tname = None
            if isinstance(v, ast.Call) and isinstance(v.func, ast.Attribute) and v.func.attr == "get" and isinstance(v.func.value, ast.Name):
                tname = v.func.value.id
            elif isinstance(v, ast.Subscript) and isinstance(v.value, ast.Name):
                tname = v.value.id
            if tname and cm.has_const(tname) and any(isinstance(c, ast.Call) and isinstance(c.func, ast.Name) and c.func.id == n.targets[0].id for c in walk_no_nested(parse.node)):
                tnode = cm.const_node(tname)
                if isinstance(tnode, ast.Dict):
                    constructed |= {x.id for x in tnode.values if isinstance(x, ast.Name)}
    for ci in _constraint_classes(res, cm):
        ok = ci.name in constructed
        run.instance("R08.5", cm.loc(ci.node), f"{ci.name} is constructible from ConstraintChain.parse", ok=ok)
        if not ok:
            run.violation("R08.5", cm, parse.qualname, f"no branch constructing {ci.name}", f"ConstraintChain.parse has no branch that builds a {ci.name}: that constraint keyword is rejected as unknown (or silently ignored)", line=parse.node.lineno)
    # an unknown keyword raises
    ok = any(isinstance(n, ast.Raise) and "Unknown constraint" in ast.unparse(n) for n in walk_no_nested(parse.node))
    run.instance("R08.5", cm.loc(parse.node), "an unknown constraint keyword raises ValueError", ok=ok)
    if not ok:
        run.violation("R08.5", cm, parse.qualname, "raise ValueError('Unknown constraint ...')", "an unknown constraint keyword is no longer refused (it would be dropped from the chain)")
    dc = normalise_locals(cm.func("ConstraintChain.detect_conflicts"), [
        ("has_req", lambda v: ast.unparse(v).startswith("any(") and "RequiredConstraint" in ast.unparse(v)),
        ("has_opt", lambda v: ast.unparse(v).startswith("any(") and "OptionalConstraint" in ast.unparse(v)),
        ("conflicts", lambda v: isinstance(v, ast.List) and not v.elts),
    ])
    cfg = CFG(dc.node)
    # additions to the conflict list: conflicts.append(...) under branch conditions, or conflicts.extend(<comprehension>) whose
    # filters are conditions of each added element
    appends = []
    for n in cfg.nodes:
        if n.ast is None:
            continue
        for c in ast.walk(n.ast):
            if isinstance(c, ast.Call) and isinstance(c.func, ast.Attribute) and is_name(c.func.value, "conflicts"):
                if c.func.attr == "append":
                    appends.append((n, []))
                elif c.func.attr == "extend" and len(c.args) == 1 and isinstance(c.args[0], (ast.GeneratorExp, ast.ListComp)):
                    appends.append((n, [(ast.unparse(i), True) for g in c.args[0].generators for i in g.ifs]))
    kinds = {"REQ∧OPT": False, "CONST≠CONST": False, "CONST∉ENUM": False}
    for a, extra in appends:
        conds = [(ast.unparse(t), val) for t, val in branch_conditions(cfg, a.id)] + extra
        for txt, val in conds:
            if val is True and "has_req" in txt and "has_opt" in txt and " and " in txt:
                kinds["REQ∧OPT"] = True
            if val is True and "const_value" in txt and "!=" in txt:
                kinds["CONST≠CONST"] = True
            if val is True and "not in" in txt and "allowed_values" in txt and "const_value" in txt:
                kinds["CONST∉ENUM"] = True
    for k, ok in kinds.items():
        run.instance("R08.5", cm.loc(dc.node), f"detect_conflicts reports {k}", ok=ok)
        if not ok:
            run.violation("R08.5", cm, dc.qualname, f"conflict {k}", f"detect_conflicts no longer reports the documented conflict {k}", line=dc.node.lineno)
    # has_req / has_opt are existence tests over all members
    for nm, cls in (("has_req", "RequiredConstraint"), ("has_opt", "OptionalConstraint")):
        defs = [n.value for n in walk_no_nested(dc.node) if isinstance(n, ast.Assign) and any(is_name(t, nm) for t in n.targets)]
        ok = len(defs) == 1 and ast.unparse(defs[0]) == f"any((isinstance(c, {cls}) for c in self.constraints))"
        run.instance("R08.5", cm.loc(dc.node), f"detect_conflicts: {nm} = any(isinstance(c, {cls}) for c in self.constraints)", ok=ok)
        if not ok:
            run.violation("R08.5", cm, dc.qualname, f"{nm} definition", f"{nm} is no longer `any member is a {cls}`: the REQ∧OPT conflict depends on member order or position")


# ---------------------------------------------------------------- R08.6
def _document_level(run: Run, vm, rule: str = "R08.6") -> None:
    uf = normalise_locals(vm.func("Validator._validate_unknown_fields"), [
        ("unknown", lambda v: isinstance(v, ast.BinOp) and isinstance(v.op, ast.Sub) and isinstance(v.left, ast.Name) and isinstance(v.right, ast.Name)),
    ])
    # a small structured interpreter over the function body: for each policy member, which ValidationError(...) are built for
    # an unknown field, with which severity, and are they built for EVERY element of sorted(unknown)?
    pparam = next((a.arg for a in uf.node.args.args if "policy" in a.arg), None)  # type: ignore[attr-defined]
    if pparam is None:
        raise AnalysisError("_validate_unknown_fields: policy parameter not found")

    def const_of(e, env):
        if isinstance(e, ast.Constant):
            return e.value
        if isinstance(e, ast.Name) and e.id in env:
            return env[e.id]
        return None

    def test_value(t, P):
        if isinstance(t, ast.Compare) and len(t.ops) == 1 and is_name(t.left, pparam) and ast.unparse(t.comparators[0]).startswith("UnknownFieldPolicy."):
            m = ast.unparse(t.comparators[0]).split(".")[-1]
            if isinstance(t.ops[0], (ast.Eq, ast.Is)):
                return m == P
            if isinstance(t.ops[0], (ast.NotEq, ast.IsNot)):
                return m != P
        return None

    def productions(P):
        prods = []  # (severity const, names the loop variable, iterates sorted(unknown) fully)

        def record(call, env, loopvar, full):
            kw = {k.arg: k.value for k in call.keywords}
            sev = const_of(kw.get("severity"), env) if "severity" in kw else "error"
            fp = kw.get("field_path")
            names = loopvar is not None and fp is not None and any(isinstance(x, ast.Name) and x.id == loopvar for x in ast.walk(fp))
            prods.append((sev, names, full))

        def scan_expr(e, env, loopvar, full):
            for c in ast.walk(e):
                if isinstance(c, (ast.ListComp, ast.GeneratorExp)) and len(c.generators) == 1:
                    g = c.generators[0]
                    full2 = ast.unparse(g.iter) == "sorted(unknown)" and not g.ifs
                    lv = g.target.id if isinstance(g.target, ast.Name) else None
                    for cc in ast.walk(c.elt):
                        if isinstance(cc, ast.Call) and ast.unparse(cc.func) == "ValidationError":
                            record(cc, env, lv, full2)
                    return
            for c in ast.walk(e):
                if isinstance(c, ast.Call) and ast.unparse(c.func) == "ValidationError":
                    record(c, env, loopvar, full)

        def run_block(stmts, env, loopvar, full) -> bool:
            """returns True when the block definitely returned"""
            for st in stmts:
                if isinstance(st, ast.Assign):
                    tg = st.targets[0]
                    if isinstance(tg, ast.Name):
                        v = const_of(st.value, env)
                        if v is not None or isinstance(st.value, ast.Constant):
                            env[tg.id] = v
                        else:
                            env.pop(tg.id, None)
                    elif isinstance(tg, ast.Tuple) and isinstance(st.value, ast.Tuple) and len(tg.elts) == len(st.value.elts):
                        for t2, v2 in zip(tg.elts, st.value.elts):
                            if isinstance(t2, ast.Name):
                                cv = const_of(v2, env)
                                if cv is not None:
                                    env[t2.id] = cv
                                else:
                                    env.pop(t2.id, None)
                elif isinstance(st, ast.If):
                    tv = test_value(st.test, P)
                    if tv is True:
                        if run_block(st.body, env, loopvar, full):
                            return True
                    elif tv is False:
                        if run_block(st.orelse, env, loopvar, full):
                            return True
                    else:
                        # unknown test (e.g. `if not unknown: return []`): both sides, on copies
                        r1 = run_block(st.body, dict(env), loopvar, full)
                        r2 = run_block(st.orelse, dict(env), loopvar, full)
                        if r1 and r2:
                            return True
                elif isinstance(st, (ast.For, ast.AsyncFor)):
                    full2 = ast.unparse(st.iter) == "sorted(unknown)" and not any(isinstance(x, (ast.Break, ast.Continue)) for b in st.body for x in ast.walk(b)) and not any(isinstance(b, ast.If) for b in st.body)
                    lv = st.target.id if isinstance(st.target, ast.Name) else None
                    run_block(st.body, dict(env), lv, full2)
                elif isinstance(st, ast.Return):
                    if st.value is not None:
                        scan_expr(st.value, env, loopvar, full)
                    return True
                elif isinstance(st, ast.Expr):
                    scan_expr(st.value, env, loopvar, full)
            return False

        run_block([x for x in uf.node.body if not (isinstance(x, ast.Expr) and isinstance(x.value, ast.Constant))], {}, None, False)  # type: ignore[attr-defined]
        return prods

    want = {"REJECT": "error", "WARN": "warning"}
    for pol, sev in want.items():
        prods = productions(pol)
        ok = len(prods) == 1 and prods[0][0] == sev and prods[0][1]
        run.instance(rule, vm.loc(uf.node), f"_validate_unknown_fields: {pol} builds {[(p[0], p[1]) for p in prods]} per unknown field (want one entry of severity {sev!r} naming the field)", ok=ok)
        if not ok:
            run.violation(rule, vm, uf.qualname, f"policy {pol}", f"under UNKNOWN_FIELDS::{pol} an unknown field does not produce exactly one entry of severity {sev!r} naming the field", line=uf.node.lineno)
        full = bool(prods) and all(p[2] for p in prods)
        run.instance(rule, vm.loc(uf.node), f"every unknown field is reported under {pol}: entries are built for each element of sorted(unknown), without filter", ok=full)
        if not full:
            run.violation(rule, vm, uf.qualname, "sorted(unknown)" if prods else f"no entries under {pol}", "not every unknown field is reported (filtered / truncated / unsorted iteration)")
    ig = productions("IGNORE")
    ok = not ig
    run.instance(rule, vm.loc(uf.node), "_validate_unknown_fields: IGNORE appends nothing", ok=ok)
    if not ok:
        run.violation(rule, vm, uf.qualname, "policy IGNORE", "UNKNOWN_FIELDS::IGNORE reports something")
    unk = [n.value for n in walk_no_nested(uf.node) if isinstance(n, ast.Assign) and any(is_name(t, "unknown") for t in n.targets)]
    ok = len(unk) == 1 and ast.unparse(unk[0]) == "document_fields - schema_fields"
    run.instance(rule, vm.loc(uf.node), "unknown = document_fields - schema_fields", ok=ok)
    if not ok:
        run.violation(rule, vm, uf.qualname, "unknown = document_fields - schema_fields", "the set of unknown fields is no longer the plain difference of document and schema field names")
    # fallback to REJECT
    vs = normalise_locals(vm.func("Validator._validate_section"), [
        ("has_req", lambda v: ast.unparse(v).startswith("any(") and "RequiredConstraint" in ast.unparse(v)),
        ("present_fields", lambda v: isinstance(v, (ast.DictComp, ast.Dict)) or (isinstance(v, ast.Call) and ast.unparse(v.func) == "dict")),
        ("value", lambda v: isinstance(v, ast.Call) and isinstance(v.func, ast.Attribute) and v.func.attr == "get" and len(v.args) == 1 and isinstance(v.func.value, ast.Name) and v.func.value.id.startswith("present_fields")),
        ("field_path", lambda v: isinstance(v, ast.JoinedStr) and ".key" in ast.unparse(v)),
        ("result", lambda v: isinstance(v, ast.Call) and ast.unparse(v.func).endswith(".constraints.evaluate")),
    ], [(("field_name", "field_def"), lambda it: ast.unparse(it).endswith(".fields.items()"))])
    cfg = CFG(vs.node)
    fb_ok = False
    default_ok = False
    # the resolution of the policy may live in a Validator helper that _validate_section calls with the section schema
    policy_helpers = []
    for c in walk_no_nested(vs.node):
        if isinstance(c, ast.Call) and isinstance(c.func, ast.Attribute) and isinstance(c.func.value, ast.Name) and c.func.value.id in ("self", "Validator", "cls"):
            q = f"Validator.{c.func.attr}"
            if vm.has_func(q) and "UnknownFieldPolicy" in ast.unparse(vm.func(q).node) and c.func.attr != "_validate_unknown_fields":
                policy_helpers.append((c, vm.func(q)))
    search_nodes = list(walk_no_nested(vs.node)) + [n for _c, h in policy_helpers for n in walk_no_nested(h.node)]
    for n in search_nodes:
        if isinstance(n, ast.ExceptHandler) and n.type is not None and "ValueError" in ast.unparse(n.type):
            if any(isinstance(s, (ast.Assign, ast.Return)) and s.value is not None and ast.unparse(s.value) == "UnknownFieldPolicy.REJECT" for s in n.body):
                fb_ok = True
        if isinstance(n, ast.IfExp) and isinstance(n.orelse, ast.Constant) and n.orelse.value == "REJECT" and "unknown_fields" in ast.unparse(n.body):
            default_ok = True
    run.instance(rule, vm.loc(vs.node), "an unparsable UNKNOWN_FIELDS value falls back to REJECT; a missing POLICY defaults to REJECT", ok=fb_ok and default_ok)
    if not (fb_ok and default_ok):
        run.violation(rule, vm, vs.qualname, "UNKNOWN_FIELDS fallback", f"invalid policy -> REJECT fallback present={fb_ok}; default REJECT present={default_ok}")
    # the policy handed to _validate_unknown_fields comes from the schema only
    pol_calls = [c for c in walk_no_nested(vs.node) if isinstance(c, ast.Call) and ast.unparse(c.func).endswith("_validate_unknown_fields")]
    if len(pol_calls) != 1 or len(pol_calls[0].args) < 3 or not isinstance(pol_calls[0].args[2], ast.Name):
        raise AnalysisError("_validate_section: call of _validate_unknown_fields(document_fields, schema_fields, <policy>, ...) not found")
    pvar = pol_calls[0].args[2].id
    for a in walk_no_nested(vs.node):
        if isinstance(a, ast.Assign) and any(is_name(t, pvar) for t in a.targets):
            v = a.value
            in_handler = False
            cur = getattr(a, "_parent", None)
            while cur is not None and cur is not vs.node:
                if isinstance(cur, ast.ExceptHandler):
                    in_handler = True
                cur = getattr(cur, "_parent", None)
            from_schema = isinstance(v, ast.Call) and ast.unparse(v.func) == "UnknownFieldPolicy" and len(v.args) == 1
            # ... or the result of a helper that only sees the section schema and only returns such conversions / the fail-safe
            for c, h in policy_helpers:
                if v is c:
                    hp = [a.arg for a in h.node.args.args if a.arg not in ("self", "cls")]
                    only_schema = all(isinstance(a, ast.Name) and "schema" in a.id for a in c.args) and not c.keywords and all("schema" in x for x in hp)
                    rets = [r for r in walk_no_nested(h.node) if isinstance(r, ast.Return) and r.value is not None]
                    good = all((isinstance(r.value, ast.Call) and ast.unparse(r.value.func) == "UnknownFieldPolicy" and len(r.value.args) == 1) or ast.unparse(r.value) == "UnknownFieldPolicy.REJECT" for r in rets)
                    if only_schema and rets and good:
                        from_schema = True
            fallback = ast.unparse(v) == "UnknownFieldPolicy.REJECT" and in_handler
            ok = from_schema or fallback
            run.instance(rule, vm.loc(a), f"_validate_section: `{norm(a)}` " + ("converts the schema's UNKNOWN_FIELDS value" if from_schema else ("is the fail-safe for an unparsable value" if fallback else "OVERRIDES the schema's policy")), ok=ok)
            if not ok:
                run.violation(rule, vm, vs.qualname, f"{pvar} overridden: {norm(a)[:60]}", f"`{norm(a)[:70]}` replaces the unknown-field policy the schema declares by something else (a caller flag, a constant): under UNKNOWN_FIELDS::WARN an unknown field must only warn and under IGNORE report nothing, whatever profile the caller uses")
    # REQ missing
    req_appends = [n for n in cfg.nodes if n.ast is not None and any(isinstance(c, ast.Call) and ast.unparse(c.func) == "ValidationError" and any(k.arg == "code" and isinstance(k.value, ast.Constant) and k.value.value == "E003" for k in c.keywords) for c in ast.walk(n.ast))]
    ok = len(req_appends) == 1
    detail = f"{len(req_appends)} E003 site(s)"
    if ok:
        a = req_appends[0]
        conds = branch_conditions(cfg, a.id)
        tests = [ast.unparse(t) for t, val in conds if val is True]
        guard_ok = "has_req and value is None" in tests or "value is None and has_req" in tests
        guard_ok_simple = guard_ok
        inline_none = False
        if not guard_ok:
            # the same two conditions as nested tests, has_req possibly written out in place
            atoms = [(ast.unparse(t), val) for t, val in atomic_conditions(cfg, a.id)]
            none_atom = ("value is None", True) in atoms or ("value is not None", False) in atoms
            inline_none = False
            if not none_atom:
                # the read written in the test itself: `present_fields.get(field_name) is None`
                inline_none = ("present_fields.get(field_name) is None", True) in atoms or ("present_fields.get(field_name) is not None", False) in atoms
                none_atom = inline_none
            req_atom = ("has_req", True) in atoms or any(val is True and txt.startswith("any(") and "isinstance(c, RequiredConstraint)" in txt for txt, val in atoms)
            if not req_atom:
                # `<field definition>.is_required`, where that property is `any(isinstance(c, RequiredConstraint) for c in ...)`
                for txt, val in atoms:
                    if val is True and txt.endswith(".is_required"):
                        for m2 in run.project.modules.values():
                            for q2, f2 in m2.functions.items():
                                if f2.name == "is_required" and any(ast.unparse(d).endswith("property") for d in f2.node.decorator_list):
                                    rets = [r.value for r in walk_no_nested(f2.node) if isinstance(r, ast.Return) and r.value is not None]
                                    if rets and all((isinstance(r, ast.Constant) and r.value is False) or (ast.unparse(r).startswith("any(") and "isinstance(c, RequiredConstraint)" in ast.unparse(r)) for r in rets) and any(not isinstance(r, ast.Constant) for r in rets):
                                        req_atom = True
            inline_req = not any(txt == "has_req" for txt, _ in atoms) and req_atom
            guard_ok = none_atom and req_atom
        else:
            inline_req = False
        call = [c for c in ast.walk(a.ast) if isinstance(c, ast.Call) and ast.unparse(c.func) == "ValidationError"][0]  # type: ignore[arg-type]
        kw = {k.arg: k.value for k in call.keywords}
        path_ok = "field_path" in kw and isinstance(kw["field_path"], ast.Name)
        vdefs = [n.value for n in walk_no_nested(vs.node) if isinstance(n, ast.Assign) and any(is_name(t, "value") for t in n.targets)]
        val_ok = (len(vdefs) == 1 and ast.unparse(vdefs[0]) == "present_fields.get(field_name)") or (not guard_ok_simple and inline_none)
        hdefs = [n.value for n in walk_no_nested(vs.node) if isinstance(n, ast.Assign) and any(is_name(t, "has_req") for t in n.targets)]
        has_ok = (len(hdefs) == 1 and "isinstance(c, RequiredConstraint)" in ast.unparse(hdefs[0]) and ast.unparse(hdefs[0]).startswith("any(")) or (inline_req and not hdefs)
        ok = guard_ok and path_ok and val_ok and has_ok
        detail = f"guard `has_req and value is None`={guard_ok}, names the field={path_ok}, value=present_fields.get(field_name)={val_ok}, has_req=any(REQ member)={has_ok}"
    run.instance(rule, vm.loc(vs.node), f"_validate_section: missing required field -> E003 ({detail})", ok=ok)
    if not ok:
        run.violation(rule, vm, vs.qualname, "REQ-missing test `has_req and value is None` -> E003", f"the missing-required-field check is not the documented one: {detail} (a field given as null, false or 0 would be misjudged, or the error would not name the field)")
    # chain errors are all converted
    def _receiver_text(c: ast.Call) -> str:
        # the receiver of .evaluate, a local bound once standing for its definition (`chain = field_def.pattern.constraints`)
        r = c.func.value if isinstance(c.func, ast.Attribute) else None
        if isinstance(r, ast.Name):
            ds = [a.value for a in walk_no_nested(vs.node) if isinstance(a, ast.Assign) and len(a.targets) == 1 and is_name(a.targets[0], r.id)]
            if len(ds) == 1:
                r = ds[0]
        return ast.unparse(r) if r is not None else ""

    ev = [n for n in walk_no_nested(vs.node) if isinstance(n, ast.Call) and isinstance(n.func, ast.Attribute) and n.func.attr == "evaluate" and _receiver_text(n).endswith(".constraints")]
    ok = len(ev) == 1 and {k.arg: ast.unparse(k.value) for k in ev[0].keywords} == {"value": "value", "path": "field_path"}
    loops = [n for n in walk_no_nested(vs.node) if isinstance(n, ast.For) and ast.unparse(n.iter) == "result.errors"]
    # ... or `self.errors.extend(<one entry per element of result.errors, unfiltered>)`
    exts = [n for n in walk_no_nested(vs.node) if isinstance(n, ast.Call) and isinstance(n.func, ast.Attribute) and n.func.attr == "extend" and ast.unparse(n.func.value) == "self.errors" and len(n.args) == 1 and isinstance(n.args[0], (ast.GeneratorExp, ast.ListComp)) and len(n.args[0].generators) == 1 and ast.unparse(n.args[0].generators[0].iter) == "result.errors"]
    conv_ok = (len(loops) == 1 and not exts and not any(isinstance(x, (ast.If, ast.Break, ast.Continue)) for st in loops[0].body for x in ast.walk(st))) or (len(exts) == 1 and not loops and not exts[0].args[0].generators[0].ifs and not any(isinstance(x, ast.IfExp) for x in ast.walk(exts[0].args[0].elt)))  # type: ignore[attr-defined]
    ok = ok and conv_ok
    run.instance(rule, vm.loc(vs.node), "_validate_section: the chain is evaluated on the present value and every one of its errors is reported", ok=ok)
    if not ok:
        run.violation(rule, vm, vs.qualname, "chain evaluation and error conversion", "the field's chain is not evaluated on (value, field_path) or its errors are filtered before being reported")
    # the skip of absent optional fields is exactly `value is None`
    # (a branch that only records constants before its `continue` is still just a skip)
    skips = [n for n in walk_no_nested(vs.node) if isinstance(n, ast.If) and n.body and isinstance(n.body[-1], ast.Continue) and all(isinstance(b, ast.Assign) and (isinstance(b.value, ast.Constant) or (isinstance(b.value, ast.Attribute) and b.value.attr.isupper())) for b in n.body[:-1]) and "value" in names_in(n.test) and "has_req" not in names_in(n.test)]
    ok = len(skips) == 1 and ast.unparse(skips[0].test) == "value is None"
    if not ok and len(ev) == 1:
        # decided at the evaluation itself: of the conditions under which the chain is evaluated, the only ones that look at the
        # value say that it is not None
        evn = [n for n in cfg.nodes if n.ast is not None and any(x is ev[0] for x in ast.walk(n.ast))]
        if len(evn) == 1:
            atoms = [(ast.unparse(t), val) for t, val in atomic_conditions(cfg, evn[0].id) if "value" in names_in(t)]
            ok = bool(atoms) and all(a_ in (("value is None", False), ("value is not None", True)) for a_ in atoms)
    run.instance(rule, vm.loc(vs.node), "_validate_section: only an absent value (None) skips chain evaluation", ok=ok)
    if not ok:
        run.violation(rule, vm, vs.qualname, "if value is None: continue", "chain evaluation is skipped for something other than an absent (None) value")


# ---------------------------------------------------------------- R08.7
def _severity(run: Run, res: Resolver) -> None:
    consumers = [("mcp.validate", "ValidateTool.execute"), ("mcp.write", "WriteTool.execute"), ("cli.main", "validate"), ("cli.main", "write")]
    for modname, qual in consumers:
        m = run.project.mod(modname)
        fi = m.func(qual)
        passes_section_schemas = any(isinstance(n, ast.Call) and isinstance(n.func, ast.Attribute) and n.func.attr == "validate" and (any(k.arg == "section_schemas" for k in n.keywords) or len(n.args) >= 3) for n in walk_no_nested(fi.node))
        if not passes_section_schemas:
            run.instance("R08.7", m.loc(fi.node), f"{qual}: validates without section schemas, so no policy-driven warning entries can reach it", ok=True, nontrivial=False)
            continue
        reads = [n for n in walk_no_nested(fi.node) if isinstance(n, ast.Attribute) and n.attr == "severity"]
        # every binding of a validator result that can decide INVALID is filtered by severity before it is tested
        cfg = CFG(fi.node)
        for n in walk_no_nested(fi.node):
            if isinstance(n, ast.Assign) and isinstance(n.value, ast.Call) and isinstance(n.value.func, ast.Attribute) and n.value.func.attr == "validate" and any(k.arg == "section_schemas" for k in n.value.keywords) and isinstance(n.targets[0], ast.Name):
                var = n.targets[0].id
                starts = cfg.node_for_stmt_containing(n)
                tests = [t for t in cfg.nodes if t.kind == "test" and t.ast is not None and var in names_in(t.ast) and any(isinstance(c, ast.Constant) and c.value == "INVALID" for s2 in _region(cfg, t.id) for c in ast.walk(cfg.nodes[s2].ast or ast.Pass()))]
                filters = {x for f2 in walk_no_nested(fi.node) if isinstance(f2, ast.Assign) and any(is_name(t, var) for t in f2.targets) and isinstance(f2.value, (ast.ListComp,)) and any("severity" in ast.unparse(i) for g in f2.value.generators for i in g.ifs) for x in cfg.node_for_stmt_containing(f2)}
                for t in tests:
                    for s0 in starts:
                        if not cfg.path_exists(s0, t.id, {"x"}):
                            continue
                        w = cfg.all_paths_pass(s0, t.id, lambda nn: nn.id in filters, {"x"})
                        # paths that re-bind var from another validate() call are judged at that binding
                        rebinds = {x for f2 in walk_no_nested(fi.node) if f2 is not n and isinstance(f2, ast.Assign) and any(is_name(tt, var) for tt in f2.targets) and isinstance(f2.value, ast.Call) for x in cfg.node_for_stmt_containing(f2)}
                        if w is not None and not any(p in rebinds for p in w[1:]):
                            run.violation("R08.7", m, qual, n, f"the list bound here reaches the INVALID decision at line {t.lineno} without a severity filter: a warning-only list (UNKNOWN_FIELDS::WARN) makes the document INVALID",
                                          path=cfg.describe_path(w, m.relpath))
                run.instance("R08.7", m.loc(n), f"{qual}: `{var}` bound from validate(...section_schemas...) is severity-filtered before deciding INVALID", ok=True)
        # status decided from the bare list?
        sets_invalid = [n for n in walk_no_nested(fi.node) if isinstance(n, ast.Constant) and n.value == "INVALID"]
        ok = bool(reads) or not sets_invalid
        run.instance("R08.7", m.loc(fi.node), f"{qual}: decides INVALID looking at severity ({len(reads)} read(s) of .severity)", ok=ok)
        if not ok:
            run.violation("R08.7", m, qual, "INVALID decided from `if validation_errors:` without severity", "any entry returned by Validator.validate() - including severity=\"warning\" entries of an UNKNOWN_FIELDS::WARN policy - makes the document INVALID",
                          failing_input="schema with POLICY UNKNOWN_FIELDS::WARN + a document with one extra field -> validation_status INVALID with only a W001 warning", line=fi.node.lineno)


# ---------------------------------------------------------------- R08.8
def _enum_shape(run: Run, cm, rule: str = "R08.8") -> None:
    fi = normalise_locals(cm.func("EnumConstraint.evaluate"), [
        ("value_str", lambda v: isinstance(v, ast.Call) and ast.unparse(v.func) == "str" and len(v.args) == 1),
        ("matches", lambda v: isinstance(v, ast.ListComp) and "allowed_values" in ast.unparse(v)),
    ])
    cfg = CFG(fi.node)
    # this rule reads ONE shape of the decision (exact member first, then a comprehension of prefix candidates, then tests on its
    # length). Where the candidates come out of a method of the class that is not read in place (a single-pass helper with an
    # early return, a generator) there is no comprehension to judge: not decided, rather than a violation for a different proof
    if not any(isinstance(n, ast.ListComp) and "allowed_values" in ast.unparse(n) for n in walk_no_nested(fi.node)):
        helpers = [c for c in walk_no_nested(fi.node) if isinstance(c, ast.Call) and isinstance(c.func, ast.Attribute) and isinstance(c.func.value, ast.Name) and c.func.value.id == "self" and cm.has_func(f"EnumConstraint.{c.func.attr}") and "allowed_values" in ast.unparse(cm.func(f"EnumConstraint.{c.func.attr}").node)]
        if helpers:
            raise AnalysisError(f"EnumConstraint.evaluate: the candidates are computed by `{ast.unparse(helpers[0].func)}` (not read in place), not by a comprehension over self.allowed_values; exact-first / unique-prefix semantics are not decided in that form")
    sdefs = [n for n in walk_no_nested(fi.node) if isinstance(n, ast.Assign) and isinstance(n.value, ast.Call) and ast.unparse(n.value) == "str(value)" and isinstance(n.targets[0], ast.Name)]
    svar = sdefs[0].targets[0].id if sdefs else "value_str"
    # exact first
    exact = [n for n in cfg.nodes if n.kind == "test" and isinstance(n.ast, ast.Compare) and isinstance(n.ast.ops[0], ast.In) and is_name(n.ast.left, svar) and ast.unparse(n.ast.comparators[0]) == "self.allowed_values"]
    ok = len(exact) == 1
    if ok:
        t_succ = [s for s, lab in cfg.succ[exact[0].id] if lab == "t"]
        ok = bool(t_succ) and all(isinstance(cfg.nodes[s].ast, ast.Return) and _result_valid(cfg.nodes[s].ast.value) is True for s in t_succ)
    mdefs = [n for n in cfg.nodes if isinstance(n.ast, ast.Assign) and any(is_name(t, "matches") for t in n.ast.targets)]
    ok = ok and len(mdefs) == 1 and cfg.dominated_by(mdefs[0].id, exact[0].id)
    run.instance(rule, cm.loc(fi.node), "ENUM: an exact member is accepted before any prefix matching", ok=ok)
    if not ok:
        run.violation(rule, cm, fi.qualname, f"exact match `{svar} in self.allowed_values` first", "ENUM no longer accepts an exact member before prefix matching: a value that is both a member and a prefix of another member (DEV / DEVELOPMENT) is rejected as ambiguous")
    mok = len(mdefs) == 1 and ast.unparse(mdefs[0].ast.value) == f"[v for v in self.allowed_values if v.startswith({svar})]"
    run.instance(rule, cm.loc(fi.node), f"ENUM: candidates are `[v for v in self.allowed_values if v.startswith({svar})]`", ok=mok)
    if not mok:
        run.violation(rule, cm, fi.qualname, "prefix candidates", "the ENUM candidate list is not 'allowed values that start with the value'")
    # verdicts by candidate count
    for rn in [n for n in cfg.nodes if isinstance(n.ast, ast.Return)]:
        valid = _result_valid(rn.ast.value)  # type: ignore[union-attr]
        if mdefs and not cfg.dominated_by(rn.id, mdefs[0].id):
            continue
        conds = branch_conditions(cfg, rn.id)
        lo, hi = interval_from_conditions(conds, "len(matches)")
        code = None
        for c in ast.walk(rn.ast):
            if isinstance(c, ast.keyword) and c.arg == "code" and isinstance(c.value, ast.Constant):
                code = c.value.value
            # a result-building helper called positionally: the argument bound to its `code` parameter
            if isinstance(c, ast.Call) and isinstance(c.func, ast.Name) and c.func.id in _RESULT_HELPERS and cm.has_func(c.func.id):
                hp = [a.arg for a in cm.func(c.func.id).node.args.args]
                if "code" in hp and hp.index("code") < len(c.args) and isinstance(c.args[hp.index("code")], ast.Constant):
                    code = c.args[hp.index("code")].value
        if valid is True:
            ok = (lo, hi) == (1, 1)
            what = f"accepts with len(matches) in [{lo},{hi}]"
        else:
            ok = ((lo, hi) == (0, 0) and code == "E005") or (lo >= 2 and code == "E006")
            what = f"rejects with {code} when len(matches) in [{lo},{hi}]"
        run.instance(rule, cm.loc(rn.ast), f"ENUM: {what}", ok=ok)
        if not ok:
            run.violation(rule, cm, fi.qualname, rn.ast, f"ENUM {what}: documented semantics are unique prefix accepts, no candidate E005, several candidates E006")


_KIND_TYPES = {"STRING": {"str"}, "NUMBER": {"int", "float"}, "BOOLEAN": {"bool"}, "LIST": {"list"}}


def _dict_rows(d: ast.Dict) -> dict[str, set[str]] | None:
    """{"KIND": T | (T1, T2) | (T | (T1, T2), <flags...>)} -> kind -> set of type names; None when a row is not readable"""
    rows: dict[str, set[str]] = {}
    for k, v in zip(d.keys, d.values):
        if not (isinstance(k, ast.Constant) and isinstance(k.value, str)):
            return None

        def types(e: ast.AST) -> set[str] | None:
            if isinstance(e, ast.Name):
                return {e.id}
            if isinstance(e, ast.Tuple) and e.elts and all(isinstance(x, ast.Name) and x.id in ("str", "int", "float", "bool", "list", "dict", "tuple", "bytes", "set", "frozenset", "complex", "object") for x in e.elts):
                return {x.id for x in e.elts}  # type: ignore[attr-defined]
            if isinstance(e, ast.BinOp) and isinstance(e.op, ast.BitOr):
                a, b = types(e.left), types(e.right)
                return None if a is None or b is None else a | b
            return None

        t = types(v)
        if t is None and isinstance(v, (ast.Tuple, ast.Call)):
            # a row record: the first element / argument carries the type(s), the rest are flags
            first = (v.elts if isinstance(v, ast.Tuple) else v.args)[:1]
            t = types(first[0]) if first else None
        if t is None:
            return None
        rows[k.value] = t
    return rows


def _type_table(run: Run, cm) -> None:
    fi = cm.func("TypeConstraint.evaluate")
    cfg = CFG(fi.node)
    tables: list[tuple[ast.AST, dict[str, set[str]]]] = []
    seen_names: set[str] = set()
    for n in walk_no_nested(fi.node):
        d = None
        if isinstance(n, (ast.Assign, ast.AnnAssign)) and isinstance(n.value, ast.Dict):
            d = n.value
        elif isinstance(n, ast.Name) and isinstance(n.ctx, ast.Load) and n.id not in seen_names and cm.has_const(n.id) and isinstance(cm.const_node(n.id), ast.Dict):
            seen_names.add(n.id)
            d = cm.const_node(n.id)
        elif isinstance(n, ast.Attribute) and isinstance(n.value, ast.Name) and n.value.id in ("self", "cls", "TypeConstraint") and n.attr not in seen_names:
            cls = next((c for c in cm.tree.body if isinstance(c, ast.ClassDef) and c.name == "TypeConstraint"), None)
            for st in (cls.body if cls else []):
                if isinstance(st, (ast.Assign, ast.AnnAssign)) and isinstance(st.value, ast.Dict) and any(isinstance(t, ast.Name) and t.id == n.attr for t in (st.targets if isinstance(st, ast.Assign) else [st.target])):
                    seen_names.add(n.attr)
                    d = st.value
        if d is not None:
            rows = _dict_rows(d)
            if rows is not None and set(rows) & set(_KIND_TYPES):
                tables.append((d, rows))
    if len(tables) != 1:
        raise AnalysisError(f"TypeConstraint.evaluate: {len(tables)} kind -> type table(s) found (a dict display with STRING/NUMBER/BOOLEAN/LIST keys, local, module-level or class-level); TYPE by value kind is not decided in this form")
    d, rows = tables[0]
    for kind in sorted(set(rows) | set(_KIND_TYPES)):
        want, got = _KIND_TYPES.get(kind), rows.get(kind)
        ok = want == got
        run.instance("R08.9", cm.loc(d), f"TYPE({kind}) accepts instances of {sorted(got) if got else 'nothing (no row)'}", ok=ok)
        if not ok:
            run.violation("R08.9", cm, fi.qualname, f"TYPE table row {kind}", f"TYPE({kind}) tests the value against {sorted(got) if got else 'no row'}; the documented value kind is {sorted(want) if want else 'not a documented kind (STRING, NUMBER, BOOLEAN, LIST)'}")
    # the kind the table is asked for is the kind the bool guard speaks about: `T.get(K)` and `G == "NUMBER" and isinstance(v, bool)`
    keys = [c.args[0] for c in walk_no_nested(fi.node) if isinstance(c, ast.Call) and isinstance(c.func, ast.Attribute) and c.func.attr == "get" and c.args and "expected_type" in ast.unparse(c.args[0])]
    keys += [c.slice for c in walk_no_nested(fi.node) if isinstance(c, ast.Subscript) and isinstance(c.ctx, ast.Load) and "expected_type" in ast.unparse(c.slice)]
    guards = [c.left for c in walk_no_nested(fi.node) if isinstance(c, ast.Compare) and len(c.ops) == 1 and isinstance(c.ops[0], (ast.Eq, ast.In)) and "expected_type" in ast.unparse(c.left) and any(isinstance(x, ast.Constant) and x.value == "NUMBER" for x in ast.walk(c.comparators[0]))]

    def _resolved(e: ast.AST) -> str:
        if isinstance(e, ast.Name):
            ds = [a.value for a in walk_no_nested(fi.node) if isinstance(a, ast.Assign) and len(a.targets) == 1 and is_name(a.targets[0], e.id)]
            if len(ds) == 1:
                return ast.unparse(ds[0])
        return ast.unparse(e)

    for k in keys:
        for g in guards:
            same = _resolved(k) == _resolved(g)
            run.instance("R08.9", cm.loc(g), f"TYPE: the table is asked for `{_resolved(k)}` and the bool guard tests `{_resolved(g)}`", ok=same)
            if not same:
                run.violation("R08.9", cm, fi.qualname, g, f"the kind looked up in the table is `{_resolved(k)}` but the guard that keeps booleans out of NUMBER tests `{_resolved(g)}`: for a spelling the two treat differently (TYPE[number]) the table says int|float while the guard is skipped, so True / False pass as numbers")
    # an unknown kind rejects; acceptance lies past a failed `not isinstance(value, <entry>)`
    accepts = [n for n in cfg.nodes if isinstance(n.ast, ast.Return) and _result_valid(n.ast.value) is True]
    if not accepts:
        raise AnalysisError("TypeConstraint.evaluate: no accepting return found")
    pvalue = fi.node.args.args[1].arg  # type: ignore[attr-defined]
    for a in accepts:
        conds = atomic_conditions(cfg, a.id)
        inst = False
        for t, val in conds:
            neg = isinstance(t, ast.UnaryOp) and isinstance(t.op, ast.Not)
            core = t.operand if neg else t  # type: ignore[attr-defined]
            if isinstance(core, ast.Call) and isinstance(core.func, ast.Name) and core.func.id == "isinstance" and len(core.args) == 2 and is_name(core.args[0], pvalue) and (val != neg):
                src = ast.unparse(core.args[1])
                # the second argument comes from the table (a local bound from <table>.get(...) / <table>[...]) - not a literal type
                if not (isinstance(core.args[1], ast.Name) and core.args[1].id in ("str", "int", "float", "bool", "list")) and not isinstance(core.args[1], ast.Tuple):
                    inst = True
        run.instance("R08.9", cm.loc(a.ast), "TYPE accepts only where isinstance(value, <table entry>) holds", ok=inst)
        if not inst:
            run.violation("R08.9", cm, fi.qualname, a.ast, "an accepting return of TYPE is reachable without isinstance(value, <the table entry of the expected kind>) having held")
        nonnull = False
        for t, val in conds:
            if isinstance(t, ast.Compare) and len(t.ops) == 1 and isinstance(t.ops[0], (ast.Is, ast.IsNot)) and isinstance(t.comparators[0], ast.Constant) and t.comparators[0].value is None and (val == isinstance(t.ops[0], ast.IsNot)) and isinstance(t.left, ast.Name):
                # the tested local is what the table lookup gave, and a missing row gives None (no default other than None)
                defs = [x.value for x in walk_no_nested(fi.node) if isinstance(x, (ast.Assign, ast.AnnAssign)) and x.value is not None and any(is_name(tg, t.left.id) for tg in (x.targets if isinstance(x, ast.Assign) else [x.target]))]
                if defs and all(isinstance(dv, ast.Call) and isinstance(dv.func, ast.Attribute) and dv.func.attr == "get" and (len(dv.args) == 1 or (len(dv.args) == 2 and isinstance(dv.args[1], ast.Constant) and dv.args[1].value is None)) and not dv.keywords for dv in defs):
                    nonnull = True
            if isinstance(t, ast.Compare) and len(t.ops) == 1 and isinstance(t.ops[0], (ast.In, ast.NotIn)) and (val == isinstance(t.ops[0], ast.In)) and "expected_type" in ast.unparse(t.left):
                nonnull = True
        run.instance("R08.9", cm.loc(a.ast), "TYPE with a kind that has no row does not accept", ok=nonnull)
        if not nonnull:
            run.violation("R08.9", cm, fi.qualname, a.ast, "an accepting return of TYPE is reachable when the expected kind has no table row (unknown kinds must be rejected)")


def _call_truth(t: ast.AST, val: bool) -> tuple[ast.Call, bool] | None:
    """(call, did it return something truthy) for the test forms `C`, `not C`, `C is None`, `C is not None`, `bool(C)`"""
    while isinstance(t, ast.UnaryOp) and isinstance(t.op, ast.Not):
        t, val = t.operand, not val
    if isinstance(t, ast.Compare) and len(t.ops) == 1 and isinstance(t.ops[0], (ast.Is, ast.IsNot)) and isinstance(t.comparators[0], ast.Constant) and t.comparators[0].value is None:
        val = val if isinstance(t.ops[0], ast.IsNot) else not val
        t = t.left
    if isinstance(t, ast.Call) and isinstance(t.func, ast.Name) and t.func.id == "bool" and len(t.args) == 1:
        t = t.args[0]
    return (t, val) if isinstance(t, ast.Call) else None


def _sibling_kind_tables(run: Run, rule: str = "R08.9") -> None:
    """every kind -> Python type table of the validation code agrees with the documented kinds (sibling agreement)"""
    n = 0
    for mn in ("core.constraints", "core.validator", "core.repair", "core.schema_extractor"):
        try:
            m = run.project.mod(mn)
        except AnalysisError:
            continue
        seen: set[int] = set()
        for d in [x for x in ast.walk(m.tree) if isinstance(x, ast.Dict)]:
            if id(d) in seen:
                continue
            seen.add(id(d))
            rows = _dict_rows(d)
            if rows is None or len(set(rows) & set(_KIND_TYPES)) < 2:
                continue
            if not all(v <= {"str", "int", "float", "bool", "list", "dict", "tuple"} for v in rows.values()):
                continue  # not a table of Python types
            n += 1
            bad = {k: v for k, v in rows.items() if k in _KIND_TYPES and v != _KIND_TYPES[k]}
            fn = m.enclosing_function(d) or "<module>"
            run.instance(rule, m.loc(d), f"{mn}:{fn}: kind -> type table {{{', '.join(f'{k}: {sorted(v)}' for k, v in sorted(rows.items()))}}}", ok=not bad)
            for k, v in sorted(bad.items()):
                run.violation(rule, m, fn, f"kind table row {k} = {sorted(v)}", f"a kind -> type table of {mn} ({fn}) says {k} is {sorted(v)}, the documented value kind (and the table TYPE itself uses) is {sorted(_KIND_TYPES[k])}: two parts of the validator disagree on what a {k} is, so a value one accepts the other rejects")
    if n == 0:
        raise AnalysisError("no kind -> type table found in the validation modules")


def _text_of_value(fi: FuncInfo, e: ast.AST, pvalue: str) -> bool:
    """is `e` the text of the value parameter: str(value), a local bound once from it, or a .replace/.strip-free copy"""
    if isinstance(e, ast.Call) and isinstance(e.func, ast.Name) and e.func.id == "str" and len(e.args) == 1 and is_name(e.args[0], pvalue):
        return True
    if isinstance(e, ast.Name):
        defs = [a.value for a in walk_no_nested(fi.node) if isinstance(a, ast.Assign) and any(is_name(t, e.id) for t in a.targets)]
        return len(defs) == 1 and _text_of_value(fi, defs[0], pvalue)
    return False


def _calendar_call(c: ast.AST) -> str | None:
    if isinstance(c, ast.Call) and isinstance(c.func, ast.Attribute) and c.func.attr in ("fromisoformat", "strptime") and ast.unparse(c.func.value) in ("datetime", "date", "datetime.datetime", "datetime.date"):
        return c.func.attr
    return None


def _shape_language(run: Run, cm, call: ast.Call) -> tuple[str, str] | None:
    """(method, pattern text) of re.match/fullmatch(<const pattern>, x) or <module regex>.match/fullmatch(x)"""
    f = call.func
    if isinstance(f, ast.Attribute) and f.attr in ("match", "fullmatch", "search"):
        if ast.unparse(f.value) == "re" and call.args:
            pat = run.project.try_fold(cm, call.args[0])
            return (f.attr, pat) if isinstance(pat, str) else None
        if isinstance(f.value, ast.Name) and cm.has_const(f.value.id):
            v = cm.const_node(f.value.id)
            if isinstance(v, ast.Call) and ast.unparse(v.func) == "re.compile" and len(v.args) == 1 and isinstance(v.args[0], ast.Constant) and isinstance(v.args[0].value, str):
                return (f.attr, v.args[0].value)
    return None


def _calendar_gates(run: Run, cm) -> None:
    from .. import rx

    A = rx.Alphabet()

    def lang(method: str, pat: str) -> "rx.Sim":
        b = rx.Builder(A)
        fr = b.regex(pat)
        if method == "match":
            fr = b.seq(fr, b.any_star())
        return rx.Sim(b.finish(fr), A)

    ref = lang("fullmatch", r"\d{4}-\d{2}-\d{2}")  # upper bound: \d admits every Unicode decimal digit
    ref_ascii = lang("fullmatch", r"[0-9]{4}-[0-9]{2}-[0-9]{2}")  # lower bound
    for cls, shape_needed in (("DateConstraint", True), ("Iso8601Constraint", False)):
        fi = cm.func(f"{cls}.evaluate")
        cfg = CFG(fi.node)
        pvalue = fi.node.args.args[1].arg  # type: ignore[attr-defined]
        accepts = [n for n in cfg.nodes if isinstance(n.ast, ast.Return) and _result_valid(n.ast.value) is True]
        if not accepts:
            raise AnalysisError(f"{cls}.evaluate: no accepting return found")
        # calendar parse nodes: a statement holding datetime/date.fromisoformat(<text of value>[.replace('Z', '+00:00')]) or strptime(<text>, '%Y-%m-%d')
        parses: list[int] = []
        for n in cfg.nodes:
            if n.ast is None or n.kind not in ("stmt", "test"):
                continue
            for c in ast.walk(n.ast):
                kind = _calendar_call(c)
                if not kind or not c.args:  # type: ignore[attr-defined]
                    continue
                arg = c.args[0]  # type: ignore[attr-defined]
                if isinstance(arg, ast.Call) and isinstance(arg.func, ast.Attribute) and arg.func.attr == "replace" and [run.project.try_fold(cm, x) for x in arg.args] == ["Z", "+00:00"] and not shape_needed:
                    arg = arg.func.value
                if not _text_of_value(fi, arg, pvalue):
                    continue
                if kind == "strptime" and not (len(c.args) == 2 and isinstance(c.args[1], ast.Constant) and c.args[1].value == "%Y-%m-%d"):  # type: ignore[attr-defined]
                    continue
                parses.append(n.id)
        for a in accepts:
            # the parse completed: the accepting return is the parse statement itself or is dominated by it, and the parse's
            # exception edge leads to a handler region that cannot reach this return
            dom = [p for p in parses if p == a.id or cfg.dominated_by(a.id, p)]
            ok = bool(dom)
            if ok:
                for p in dom:
                    xs = [s for s, lab in cfg.succ[p] if lab == "x"]
                    if not xs or any(_reaches(cfg, s, a.id) for s in xs):
                        ok = False
            run.instance("R08.10", cm.loc(a.ast), f"{cls}: acceptance lies past a completed calendar parse of the value's text (a failing parse cannot reach it)", ok=ok)
            if not ok:
                run.violation("R08.10", cm, fi.qualname, a.ast, f"{cls} accepts on a path on which no datetime/date.fromisoformat (or strptime '%Y-%m-%d') of the value's text has completed, or after the parse failed: 2024-02-30 / 2024-13-45 would be accepted as a {'date' if shape_needed else 'ISO8601 date/datetime'}")
            if not shape_needed:
                continue
            shapes = []
            for t, val in atomic_conditions(cfg, a.id):
                ct = _call_truth(t, val)
                if ct is not None and ct[1]:
                    core = ct[0]
                    sl = _shape_language(run, cm, core)
                    if sl and core.args and _text_of_value(fi, core.args[-1], pvalue):
                        shapes.append(sl)
            ok = False
            why = "no shape test `re.match/fullmatch(<constant pattern>, <text of value>)` holds on the way to the accepting return"
            for method, pat in shapes:
                if method == "search":
                    why = f"the shape test uses re.search: text that merely contains a date passes"
                    continue
                sim = lang(method, pat)
                w1 = rx.not_included_witness(sim, ref, A)
                w2 = rx.not_included_witness(ref_ascii, sim, A)
                if w1 is None and w2 is None:
                    ok = True
                    why = f"re.{method}({pat!r}) admits exactly dddd-dd-dd"
                else:
                    why = f"re.{method}({pat!r}) " + (f"also admits {w1!r}" if w1 is not None else f"does not admit {w2!r}")
            run.instance("R08.10", cm.loc(a.ast), f"DATE: {why}", ok=ok)
            if not ok:
                run.violation("R08.10", cm, fi.qualname, "DATE shape test", f"DATE must accept YYYY-MM-DD only: {why} (datetime.fromisoformat alone also accepts 20240115, 2024-01-15T10:00 and week dates)")


def _reaches(cfg: CFG, src: int, dst: int) -> bool:
    seen = {src}
    stack = [src]
    while stack:
        n = stack.pop()
        if n == dst:
            return True
        for s, _lab in cfg.succ[n]:
            if s not in seen:
                seen.add(s)
                stack.append(s)
    return False


def _regex_member(run: Run, cm) -> None:
    fi = cm.func("RegexConstraint.evaluate")
    cfg = CFG(fi.node)
    pvalue = fi.node.args.args[1].arg  # type: ignore[attr-defined]
    # how the pattern is compiled: every re.compile in the class takes the pattern alone
    cls = next((c for c in cm.tree.body if isinstance(c, ast.ClassDef) and c.name == "RegexConstraint"), None)
    if cls is None:
        raise AnalysisError("RegexConstraint not found")
    comps = [c for c in ast.walk(cls) if isinstance(c, ast.Call) and ast.unparse(c.func) in ("re.compile", "re.match", "re.fullmatch", "re.search")]
    if not comps:
        raise AnalysisError("RegexConstraint: no re.compile / re.match of the pattern found")
    for c in comps:
        nargs = 1 if ast.unparse(c.func) == "re.compile" else 2
        ok = len(c.args) == nargs and not c.keywords and "self.pattern" in ast.unparse(c.args[0])
        run.instance("R08.11", cm.loc(c), f"`{norm(c)}`: the schema's pattern, no flags", ok=ok)
        if not ok:
            run.violation("R08.11", cm, "RegexConstraint", c, "the REGEX pattern is compiled / applied with flags or is not the schema's pattern text: IGNORECASE / DOTALL / MULTILINE change which values a schema's pattern accepts")
    uses = [c for c in walk_no_nested(fi.node) if isinstance(c, ast.Call) and isinstance(c.func, ast.Attribute) and c.func.attr in ("match", "fullmatch", "search", "findall", "finditer") and ("_compiled" in ast.unparse(c.func.value) or ast.unparse(c.func.value) == "re")]
    if len(uses) != 1:
        raise AnalysisError(f"RegexConstraint.evaluate: {len(uses)} applications of the pattern found (expected one)")
    u = uses[0]
    ok = u.func.attr in ("match", "fullmatch") and bool(u.args) and _text_of_value(fi, u.args[-1], pvalue)  # type: ignore[attr-defined]
    run.instance("R08.11", cm.loc(u), f"`{norm(u)}` anchors the pattern at the start of str(value)", ok=ok)
    if not ok:
        run.violation("R08.11", cm, fi.qualname, u, "REGEX is applied with search / to something other than str(value): a pattern would accept any value that merely contains a match")
    accepts = [n for n in cfg.nodes if isinstance(n.ast, ast.Return) and _result_valid(n.ast.value) is True]
    for a in accepts:
        conds = atomic_conditions(cfg, a.id)
        good = False
        for t, val in conds:
            # the rejecting test `self._compiled and not <match>` is false here: either no compiled pattern, or the match held;
            # accepted forms: the whole test `C and not M` false, or `not M` false / `M` true
            ct = _call_truth(t, val)
            if ct is not None and ct[0] is u and ct[1]:
                good = True
            elif isinstance(t, ast.BoolOp) and isinstance(t.op, ast.And) and val is False and len(t.values) == 2:
                # `self._compiled and not M` false: no compiled pattern (cannot happen: __post_init__ raises) or M held
                ct = _call_truth(t.values[1], False)
                if ct is not None and ct[0] is u and ct[1] and "_compiled" in ast.unparse(t.values[0]) and not isinstance(t.values[0], (ast.Call, ast.Compare, ast.BoolOp)):
                    good = True
        run.instance("R08.11", cm.loc(a.ast), "REGEX accepts only where the match held", ok=good)
        if not good:
            run.violation("R08.11", cm, fi.qualname, a.ast, "an accepting return of REGEX is reachable although the pattern did not match")


def _splitter_quotes(run: Run, cm) -> None:
    run.rule("R08.12", "members are separated where the chain text separates them: the bracket-depth scanner of ConstraintChain._split_parts copies quoted text through - every change of its depth counter happens only where a quote flag (toggled at each unescaped \") is false - so a bracket inside REGEX[\"...\"] cannot swallow the members that follow", 2)
    fi = cm.func("ConstraintChain._split_parts")
    cfg = CFG(fi.node)
    depth_updates = [n for n in cfg.nodes if isinstance(n.ast, ast.AugAssign) and isinstance(n.ast.target, ast.Name) and isinstance(n.ast.op, (ast.Add, ast.Sub)) and isinstance(n.ast.value, ast.Constant) and n.ast.value.value == 1]
    if not depth_updates:
        run.instance("R08.12", cm.loc(fi.node), "_split_parts: no bracket-depth counter (nothing can be swallowed by nesting)", ok=True, nontrivial=False)
        run.instance("R08.12", cm.loc(fi.node), "_split_parts: (no scanner)", ok=True, nontrivial=False)
        return
    # quote flags: a local toggled with `F = not F`
    flags = {a.targets[0].id for a in walk_no_nested(fi.node) if isinstance(a, ast.Assign) and len(a.targets) == 1 and isinstance(a.targets[0], ast.Name) and isinstance(a.value, ast.UnaryOp) and isinstance(a.value.op, ast.Not) and is_name(a.value.operand, a.targets[0].id)}
    toggles_on_quote = set()
    for n in cfg.nodes:
        if isinstance(n.ast, ast.Assign) and len(n.ast.targets) == 1 and isinstance(n.ast.targets[0], ast.Name) and n.ast.targets[0].id in flags:
            if any(val and isinstance(t, ast.Compare) and any(isinstance(c, ast.Constant) and c.value == '"' for c in ast.walk(t)) for t, val in atomic_conditions(cfg, n.id)):
                toggles_on_quote.add(n.ast.targets[0].id)
    for n in depth_updates:
        conds = atomic_conditions(cfg, n.id)
        ok = any((not val) and isinstance(t, ast.Name) and t.id in toggles_on_quote for t, val in conds)
        run.instance("R08.12", cm.loc(n.ast), f"_split_parts: `{norm(n.ast)}` happens only outside quotes", ok=ok)
        if not ok:
            run.violation("R08.12", cm, fi.qualname, n.ast, "the separator scanner counts a bracket that stands inside a quoted argument: REGEX[\"^[(]x$\"] followed by further members is read as one unparsable member, the field loses its whole chain (REQ no longer reported, later members never reject)")


def _region(cfg: CFG, test: int) -> set[int]:
    """nodes reachable from the true edge of a test without leaving... (bounded forward slice used to see what a test decides)"""
    out: set[int] = set()
    stack = [s for s, lab in cfg.succ[test] if lab == "t"]
    while stack and len(out) < 60:
        n = stack.pop()
        if n in out or n in (cfg.exit, cfg.raise_exit):
            continue
        out.add(n)
        for s, lab in cfg.succ[n]:
            if lab != "x":
                stack.append(s)
    return out
