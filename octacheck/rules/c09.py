"""C09 Validity is invariant under respelling; validating never alters content."""
from __future__ import annotations

import ast

from ..astmodel import AstModel
from ..cfg import CFG, branch_conditions
from ..fsmodel import is_name
from ..report import Run
from ..resolve import Resolver
from ..source import AnalysisError, norm, walk_no_nested
from .c11 import _assignments, _gating

READONLY_ROOTS = [
    "octave_mcp.core.validator:Validator.validate", "octave_mcp.core.validator:validate", "octave_mcp.core.validator:validate_frontmatter",
    "octave_mcp.core.validator:_count_literal_zones", "octave_mcp.core.emitter:emit", "octave_mcp.core.projector:project",
    "octave_mcp.core.sealer:verify_seal", "octave_mcp.mcp.write:extract_structural_metrics",
]
READONLY_MODULES = ["core.validator", "core.constraints", "core.emitter", "core.projector", "core.routing", "core.holographic"]
SPELLING_ATTRS = {"tokens", "raw", "normalized_from", "column", "raw_pattern", "fence_marker"}
SPELLING_MODULES = ["core.validator", "core.constraints", "core.repair"]


def check(run: Run) -> None:
    res = Resolver(run.project)
    am = AstModel(run.project)
    run.rule("R09.1", "read-only: nothing reachable from Validator.validate / validate_frontmatter / _count_literal_zones / emit / project / verify_seal stores into, or calls a mutator on, a document AST object", 100)
    run.rule("R09.2", "repair is gated: every call of repair(..., fix=True) is control-dependent on the caller's fix (validate tool, CLI) or lenient (write tool) flag", 5)
    run.rule("R09.3", "the validator is spelling-blind: validator.py, constraints.py and repair.py read no spelling-carrying attribute (.tokens, .raw, .normalized_from, .column, .raw_pattern, .fence_marker)", 3)
    run.rule("R09.4", "octave_validate emits the parsed document untouched unless fix: `doc` is bound only by parse_with_warnings and (under fix) repair; execute itself writes no AST field; canonical is emit(doc) with no options", 4)
    run.rule("R09.5", "_to_python_value converts AST values without loss: lists and maps element-wise, literal zones and scalars by identity", 4)

    for r in READONLY_ROOTS:
        m, _, q = r.partition(":")
        if m not in run.project.modules or q not in run.project.modules[m].functions:
            raise AnalysisError(f"anchor vanished: {r}")
    reach = res.reachable_from(READONLY_ROOTS)
    for mn in READONLY_MODULES:
        reach |= {fi.fqn for fi in run.project.mod(mn).functions.values()}
    # constructors of AST classes initialise their own fields: not writes to an existing document
    for fq in sorted(reach):
        fi = res.func_by_fqn(fq)
        ws = list(am.ast_writes(fi, res))
        run.instance("R09.1", fi.module.loc(fi.node), f"{fi.qualname}: {len(ws)} document write(s)", ok=not ws, nontrivial=bool(ws))
        for node, kind, fld in ws:
            st = node
            while st is not None and not isinstance(st, ast.stmt):
                st = getattr(st, "_parent", None)
            run.violation("R09.1", fi.module, fi.qualname, st or node, f"{kind} on document field `.{fld}` in code reachable from validation/emission/projection: validating or canonicalising would alter the content it reads")
    run.extra["readonly_scope_functions"] = len(reach)

    _gating(run, res, am, rule="R09.2")

    # ---------------------------------------------------------------- R09.3
    ctl = ast.parse("x = node.tokens")
    run.control("R09.3", "embedded example `node.tokens` is recognised", any(isinstance(n, ast.Attribute) and n.attr in SPELLING_ATTRS for n in ast.walk(ctl)))
    for mn in SPELLING_MODULES:
        m = run.project.mod(mn)
        bad = [n for n in ast.walk(m.tree) if isinstance(n, ast.Attribute) and isinstance(n.ctx, ast.Load) and n.attr in SPELLING_ATTRS]
        run.instance("R09.3", m.relpath, f"{len(bad)} read(s) of spelling-carrying attributes", ok=not bad)
        for n in bad:
            run.violation("R09.3", m, m.enclosing_function(n), n, f"the validator/repair layer reads `.{n.attr}`, which records how the value was spelled: two spellings of one document could get different verdicts")

    # ---------------------------------------------------------------- R09.4
    fi = run.project.mod("mcp.validate").func("ValidateTool.execute")
    cfg = CFG(fi.node)
    binds = list(_assignments(fi, "doc"))
    ok_binds = True
    n_repair = 0
    for st, v in binds:
        src = ast.unparse(v.func) if isinstance(v, ast.Call) else None
        if src == "parse_with_warnings":
            continue
        if src == "repair":
            n_repair += 1
            continue
        ok_binds = False
        run.violation("R09.4", fi.module, fi.qualname, st, "octave_validate rebinds the document from something other than parse_with_warnings or (gated) repair: the canonical text would no longer be plain canonicalisation of the input")
    run.instance("R09.4", fi.module.loc(fi.node), f"ValidateTool.execute: doc is bound {len(binds)} time(s): parse_with_warnings and gated repair only", ok=ok_binds and len(binds) >= 1)
    ws = list(am.ast_writes(fi, res))
    run.instance("R09.4", fi.module.loc(fi.node), f"ValidateTool.execute: {len(ws)} direct document write(s)", ok=not ws)
    for node, kind, fld in ws:
        run.violation("R09.4", fi.module, fi.qualname, node, f"octave_validate performs a document {kind} on `.{fld}` itself")
    emits = [n for n in walk_no_nested(fi.node) if isinstance(n, ast.Call) and ast.unparse(n.func) == "emit"]
    if not emits:
        raise AnalysisError("ValidateTool.execute: emit() call not found")
    for e in emits:
        ok = len(e.args) == 1 and is_name(e.args[0], "doc") and not e.keywords
        run.instance("R09.4", fi.module.loc(e), f"ValidateTool.execute: `{norm(e)}` is plain canonicalisation (no options)", ok=ok)
        if not ok:
            run.violation("R09.4", fi.module, fi.qualname, e, "octave_validate emits with options or something other than the parsed document: canonical differs from plain canonicalisation of the input")
    # result["canonical"] only from emit(doc) / None (diff_only) / the original content (error paths)
    emit_vars = {t.id for e in emits for t in getattr(getattr(e, "_parent", None), "targets", []) if isinstance(t, ast.Name)}
    for n in walk_no_nested(fi.node):
        if isinstance(n, ast.Assign) and any(isinstance(t, ast.Subscript) and isinstance(t.slice, ast.Constant) and t.slice.value == "canonical" for t in n.targets):
            v = n.value
            ok = (isinstance(v, ast.Name) and v.id in emit_vars) or (isinstance(v, ast.Constant) and v.value is None) or (isinstance(v, ast.IfExp) and isinstance(v.body, ast.Constant) and v.body.value is None and is_name(v.orelse, "content")) or (isinstance(v, ast.Call) and ast.unparse(v.func) == "emit")
            run.instance("R09.4", fi.module.loc(n), f"ValidateTool.execute: `{norm(n)}`", ok=ok)
            if not ok:
                run.violation("R09.4", fi.module, fi.qualname, n, "the canonical field is set from something other than emit(doc), None (diff_only) or the untouched input (error path)")

    # ---------------------------------------------------------------- R09.5
    vm = run.project.mod("core.validator")
    tp = vm.func("Validator._to_python_value")
    pv = tp.node.args.args[1].arg  # type: ignore[attr-defined]
    rets = [n for n in walk_no_nested(tp.node) if isinstance(n, ast.Return)]
    if len(rets) < 3:
        raise AnalysisError("Validator._to_python_value: fewer than 3 returns")
    for r in rets:
        v = r.value
        ok = False
        if is_name(v, pv):
            ok = True
        elif isinstance(v, (ast.ListComp, ast.DictComp)) and len(v.generators) == 1 and not v.generators[0].ifs:
            g = v.generators[0]
            it_ok = ast.unparse(g.iter) in (f"{pv}.items", f"{pv}.pairs.items()")
            elt = v.elt if isinstance(v, ast.ListComp) else v.value
            rec_ok = isinstance(elt, ast.Call) and ast.unparse(elt.func) == "self._to_python_value" and len(elt.args) == 1 and isinstance(elt.args[0], ast.Name)
            key_ok = isinstance(v, ast.ListComp) or (isinstance(v.key, ast.Name) and isinstance(g.target, ast.Tuple) and is_name(g.target.elts[0], v.key.id))
            ok = it_ok and rec_ok and key_ok
        run.instance("R09.5", vm.loc(r), f"_to_python_value: `{norm(r)}`", ok=ok)
        if not ok:
            run.violation("R09.5", vm, tp.qualname, r, "_to_python_value returns something other than the value itself or an element-wise conversion of a list/map: constraint evaluation would see a different value than the one written")
