"""C09 Validity is invariant under respelling; validating never alters content."""
from __future__ import annotations

import ast

from ..astmodel import AstModel
from ..cfg import CFG, branch_conditions
from ..fsmodel import is_name
from ..report import Run
from ..resolve import Resolver
from ..source import AnalysisError, norm, walk_no_nested
from .c11 import _assignments, _gating

READONLY_ROOTS = [
    "octave_mcp.core.validator:Validator.validate", "octave_mcp.core.validator:validate", "octave_mcp.core.validator:validate_frontmatter",
    "octave_mcp.core.validator:_count_literal_zones", "octave_mcp.core.emitter:emit", "octave_mcp.core.projector:project",
    "octave_mcp.core.sealer:verify_seal", "octave_mcp.mcp.write:extract_structural_metrics",
]
READONLY_MODULES = ["core.validator", "core.constraints", "core.emitter", "core.projector", "core.routing", "core.holographic"]
SPELLING_ATTRS = {"tokens", "raw", "normalized_from", "column", "raw_pattern", "fence_marker"}
SPELLING_MODULES = ["core.validator", "core.constraints", "core.repair"]


MUT = {"append", "extend", "insert", "remove", "pop", "clear", "update", "setdefault", "add", "discard", "popitem", "sort", "reverse"}


def _access_roots(e: ast.AST) -> set[str]:
    """names an expression merely *accesses into* (attribute / item / .get / conditional choice): the result aliases them"""
    if isinstance(e, ast.Name):
        return {e.id}
    if isinstance(e, (ast.Attribute, ast.Subscript)):
        return _access_roots(e.value)
    if isinstance(e, ast.IfExp):
        return _access_roots(e.body) | _access_roots(e.orelse)
    if isinstance(e, ast.BoolOp):
        out: set[str] = set()
        for v in e.values:
            out |= _access_roots(v)
        return out
    if isinstance(e, ast.Call) and isinstance(e.func, ast.Attribute) and e.func.attr in ("get", "values", "items", "keys") :
        return _access_roots(e.func.value)
    if isinstance(e, ast.Call) and isinstance(e.func, ast.Name) and e.func.id == "getattr" and e.args:
        return _access_roots(e.args[0])
    return set()


def param_object_writes(fi):
    """(node, root) for stores / mutator calls that reach an object passed in as a parameter (other than self), directly or
    through a local that aliases part of it"""
    a = fi.node.args
    params = {x.arg for x in list(a.posonlyargs) + list(a.args) + list(a.kwonlyargs)} - {"self", "cls"}
    alias = set(params)
    changed = True
    while changed:
        changed = False
        for n in walk_no_nested(fi.node):
            if isinstance(n, ast.Assign) and len(n.targets) == 1 and isinstance(n.targets[0], ast.Name) and n.targets[0].id not in alias:
                if _access_roots(n.value) & alias and not isinstance(n.value, ast.Name) or (isinstance(n.value, ast.Name) and n.value.id in alias):
                    alias.add(n.targets[0].id)
                    changed = True
            if isinstance(n, (ast.For, ast.comprehension)) and isinstance(n.target, ast.Name) and n.target.id not in alias and _access_roots(n.iter) & alias:
                alias.add(n.target.id)
                changed = True
    for n in walk_no_nested(fi.node):
        if isinstance(n, ast.Call) and isinstance(n.func, ast.Attribute) and n.func.attr in MUT:
            roots = _access_roots(n.func.value)
            if roots & alias:
                yield n, sorted(roots & alias)[0]
        elif isinstance(n, (ast.Attribute, ast.Subscript)) and isinstance(n.ctx, (ast.Store, ast.Del)):
            roots = _access_roots(n.value)
            if roots & alias:
                yield n, sorted(roots & alias)[0]


# parameters that are output accumulators by contract (the caller passes a fresh list to be filled)
ACCUMULATOR_PARAMS = {
    ("octave_mcp.core.routing:RoutingLog.add", None): "the log appends to itself",
}


def check(run: Run) -> None:
    res = Resolver(run.project)
    am = AstModel(run.project)
    run.rule("R09.1", "read-only: nothing reachable from Validator.validate / validate_frontmatter / _count_literal_zones / emit / project / verify_seal stores into, or calls a mutator on, a document AST object", 100)
    run.rule("R09.2", "repair is gated: every call of repair(..., fix=True) is control-dependent on the caller's fix (validate tool, CLI) or lenient (write tool) flag", 5)
    run.rule("R09.3", "the validator is spelling-blind: validator.py, constraints.py and repair.py read no spelling-carrying attribute (.tokens, .raw, .normalized_from, .column, .raw_pattern, .fence_marker)", 3)
    run.rule("R09.4", "octave_validate emits the parsed document untouched unless fix: `doc` is bound only by parse_with_warnings and (under fix) repair; execute itself writes no AST field; canonical is emit(doc) with no options", 4)
    run.rule("R09.6", "value kind is preserved by canonicalisation (the C04 obligations this property rests on): what the emitter leaves bare is read back as the same kind of token; bool is never a number", 100)
    run.rule("R09.5", "_to_python_value converts AST values without loss: lists and maps element-wise, literal zones and scalars by identity", 4)

    for r in READONLY_ROOTS:
        m, _, q = r.partition(":")
        if m not in run.project.modules or q not in run.project.modules[m].functions:
            raise AnalysisError(f"anchor vanished: {r}")
    reach = res.reachable_from(READONLY_ROOTS)
    for mn in READONLY_MODULES:
        reach |= {fi.fqn for fi in run.project.mod(mn).functions.values()}
    # constructors of AST classes initialise their own fields: not writes to an existing document
    for fq in sorted(reach):
        fi = res.func_by_fqn(fq)
        ws = list(am.ast_writes(fi, res))
        run.instance("R09.1", fi.module.loc(fi.node), f"{fi.qualname}: {len(ws)} document write(s)", ok=not ws, nontrivial=bool(ws))
        for node, kind, fld in ws:
            st = node
            while st is not None and not isinstance(st, ast.stmt):
                st = getattr(st, "_parent", None)
            run.violation("R09.1", fi.module, fi.qualname, st or node, f"{kind} on document field `.{fld}` in code reachable from validation/emission/projection: validating or canonicalising would alter the content it reads")
    run.extra["readonly_scope_functions"] = len(reach)
    # inputs other than the document (schema objects, registries handed in) are not modified either: a verdict must not depend on what was validated before
    acc_cache: dict[tuple[str, str], bool] = {}

    def is_accumulator(fi, pname: str, depth: int = 0) -> bool:
        """every call site passes a fresh local container (bound to an empty literal / constructor in the caller) or the caller's own accumulator"""
        key = (fi.fqn, pname)
        if key in acc_cache:
            return acc_cache[key]
        acc_cache[key] = True  # recursion: assume, then verify
        a = fi.node.args
        ps = [x.arg for x in list(a.posonlyargs) + list(a.args)]
        if pname not in ps:
            acc_cache[key] = False
            return False
        idx = ps.index(pname) - (1 if ps and ps[0] in ("self", "cls") else 0)
        sites = 0
        ok = True
        for caller in run.project.all_functions():
            for n in walk_no_nested(caller.node):
                if isinstance(n, ast.Call) and any(c.kind == "repo" and c.name == fi.fqn for c in res.resolve_call(caller, n)):
                    sites += 1
                    arg = n.args[idx] if 0 <= idx < len(n.args) else next((k.value for k in n.keywords if k.arg == pname), None)
                    if not isinstance(arg, ast.Name):
                        ok = False
                        continue
                    binds = [b.value for b in walk_no_nested(caller.node) if isinstance(b, (ast.Assign, ast.AnnAssign)) and any(isinstance(t, ast.Name) and t.id == arg.id for t in (b.targets if isinstance(b, ast.Assign) else [b.target])) and b.value is not None]
                    fresh = bool(binds) and all((isinstance(v, (ast.List, ast.Dict, ast.Set)) and not (v.elts if not isinstance(v, ast.Dict) else v.keys)) or (isinstance(v, ast.Call) and ast.unparse(v.func) in ("list", "dict", "set")) and not v.args for v in binds)
                    own = arg.id in [x.arg for x in caller.node.args.args] and depth < 4 and is_accumulator(caller, arg.id, depth + 1)
                    if not (fresh or own):
                        ok = False
        acc_cache[key] = ok and sites > 0
        return acc_cache[key]

    for fq in sorted(reach):
        fi = res.func_by_fqn(fq)
        for node, root in param_object_writes(fi):
            if is_accumulator(fi, root):
                run.note(f"{fi.fqn}: parameter `{root}` is an output accumulator (every caller passes a fresh container)")
                continue
            st = node
            while st is not None and not isinstance(st, ast.stmt):
                st = getattr(st, "_parent", None)
            run.violation("R09.1", fi.module, fi.qualname, st or node, f"code reachable from validation/emission writes into an object it received as parameter `{root}` (or a part of it): validating one document changes what the next validation sees")

    _gating(run, res, am, rule="R09.2")

    # ---------------------------------------------------------------- R09.3
    ctl = ast.parse("x = node.tokens")
    run.control("R09.3", "embedded example `node.tokens` is recognised", any(isinstance(n, ast.Attribute) and n.attr in SPELLING_ATTRS for n in ast.walk(ctl)))
    for mn in SPELLING_MODULES:
        m = run.project.mod(mn)
        bad = [n for n in ast.walk(m.tree) if isinstance(n, ast.Attribute) and isinstance(n.ctx, ast.Load) and n.attr in SPELLING_ATTRS]
        run.instance("R09.3", m.relpath, f"{len(bad)} read(s) of spelling-carrying attributes", ok=not bad)
        for n in bad:
            run.violation("R09.3", m, m.enclosing_function(n), n, f"the validator/repair layer reads `.{n.attr}`, which records how the value was spelled: two spellings of one document could get different verdicts")

    # ---------------------------------------------------------------- R09.4
    fi = run.project.mod("mcp.validate").func("ValidateTool.execute")
    cfg = CFG(fi.node)
    # the document variable is the one bound from parse_with_warnings(...) (first element), whatever it is called
    docvar = "doc"
    contentvar = "content"
    for a in walk_no_nested(fi.node):
        if isinstance(a, ast.Assign) and isinstance(a.value, ast.Call) and ast.unparse(a.value.func) == "parse_with_warnings" and isinstance(a.targets[0], ast.Tuple) and isinstance(a.targets[0].elts[0], ast.Name):
            docvar = a.targets[0].elts[0].id
            if a.value.args and isinstance(a.value.args[0], ast.Name):
                contentvar = a.value.args[0].id
    binds = list(_assignments(fi, docvar))
    ok_binds = True
    n_repair = 0
    for st, v in binds:
        src = ast.unparse(v.func) if isinstance(v, ast.Call) else None
        if src == "parse_with_warnings":
            continue
        if src == "repair":
            n_repair += 1
            continue
        ok_binds = False
        run.violation("R09.4", fi.module, fi.qualname, st, "octave_validate rebinds the document from something other than parse_with_warnings or (gated) repair: the canonical text would no longer be plain canonicalisation of the input")
    run.instance("R09.4", fi.module.loc(fi.node), f"ValidateTool.execute: doc is bound {len(binds)} time(s): parse_with_warnings and gated repair only", ok=ok_binds and len(binds) >= 1)
    ws = list(am.ast_writes(fi, res))
    run.instance("R09.4", fi.module.loc(fi.node), f"ValidateTool.execute: {len(ws)} direct document write(s)", ok=not ws)
    for node, kind, fld in ws:
        run.violation("R09.4", fi.module, fi.qualname, node, f"octave_validate performs a document {kind} on `.{fld}` itself")
    emits = [n for n in walk_no_nested(fi.node) if isinstance(n, ast.Call) and ast.unparse(n.func) == "emit"]
    if not emits:
        raise AnalysisError("ValidateTool.execute: emit() call not found")
    for e in emits:
        ok = len(e.args) == 1 and is_name(e.args[0], docvar) and not e.keywords
        run.instance("R09.4", fi.module.loc(e), f"ValidateTool.execute: `{norm(e)}` is plain canonicalisation (no options)", ok=ok)
        if not ok:
            run.violation("R09.4", fi.module, fi.qualname, e, "octave_validate emits with options or something other than the parsed document: canonical differs from plain canonicalisation of the input")
    # result["canonical"] only from emit(doc) / None (diff_only) / the original content (error paths)
    emit_vars = {t.id for e in emits for t in getattr(getattr(e, "_parent", None), "targets", []) if isinstance(t, ast.Name)}
    for n in walk_no_nested(fi.node):
        if isinstance(n, ast.Assign) and any(isinstance(t, ast.Subscript) and isinstance(t.slice, ast.Constant) and t.slice.value == "canonical" for t in n.targets):
            v = n.value
            ok = (isinstance(v, ast.Name) and v.id in emit_vars) or (isinstance(v, ast.Constant) and v.value is None) or (isinstance(v, ast.IfExp) and isinstance(v.body, ast.Constant) and v.body.value is None and is_name(v.orelse, contentvar)) or (isinstance(v, ast.Call) and ast.unparse(v.func) == "emit")
            run.instance("R09.4", fi.module.loc(n), f"ValidateTool.execute: `{norm(n)}`", ok=ok)
            if not ok:
                run.violation("R09.4", fi.module, fi.qualname, n, "the canonical field is set from something other than emit(doc), None (diff_only) or the untouched input (error path)")

    # ---------------------------------------------------------------- R09.5
    vm = run.project.mod("core.validator")
    tp = vm.func("Validator._to_python_value")
    pv = tp.node.args.args[1].arg  # type: ignore[attr-defined]
    rets = [n for n in walk_no_nested(tp.node) if isinstance(n, ast.Return)]
    if len(rets) < 3:
        raise AnalysisError("Validator._to_python_value: fewer than 3 returns")
    for r in rets:
        v = r.value
        ok = False
        if is_name(v, pv):
            ok = True
        elif isinstance(v, (ast.ListComp, ast.DictComp)) and len(v.generators) == 1 and not v.generators[0].ifs:
            g = v.generators[0]
            it_ok = ast.unparse(g.iter) in (f"{pv}.items", f"{pv}.pairs.items()")
            elt = v.elt if isinstance(v, ast.ListComp) else v.value
            rec_ok = isinstance(elt, ast.Call) and ast.unparse(elt.func) == "self._to_python_value" and len(elt.args) == 1 and isinstance(elt.args[0], ast.Name)
            key_ok = isinstance(v, ast.ListComp) or (isinstance(v.key, ast.Name) and isinstance(g.target, ast.Tuple) and is_name(g.target.elts[0], v.key.id))
            ok = it_ok and rec_ok and key_ok
        run.instance("R09.5", vm.loc(r), f"_to_python_value: `{norm(r)}`", ok=ok)
        if not ok:
            run.violation("R09.5", vm, tp.qualname, r, "_to_python_value returns something other than the value itself or an element-wise conversion of a list/map: constraint evaluation would see a different value than the one written")

    # ---------------------------------------------------------------- R09.6
    from .. import bare, lexmodel
    from .c04 import check_bool_before_int

    lm = lexmodel.build(run.project)
    bare.check_bare(run, "R09.6", lm, run.project.mod("core.emitter"))
    from . import c05

    c05.check_prepass_protection(run, "R09.7")
    check_bool_before_int(run, "R09.6", [("core.emitter", "emit_value"), ("core.constraints", "TypeConstraint.evaluate"), ("core.constraints", "RangeConstraint.evaluate"), ("core.validator", "Validator._validate_type")])
    _blank_frontmatter(run)
    # "validating twice gives the same answer": no state shared between calls (the module / class state rule of C06 R06.3)
    run.rule("R09.9", "validating twice gives the same answer: module-level and class-level mutable state is never written after import (= C06 R06.3) - a memo shared by all validations, keyed more coarsely than what it stores depends on, makes the second document's verdict depend on the first", 8)
    from . import c06 as _c06

    _c06._r06_3(run, res, "R09.9")


def _blank_frontmatter(run: Run) -> None:
    """the emitter drops a blank frontmatter block, so the canonical text has none: the validator must judge blank like absent"""
    run.rule("R09.8", "frontmatter the emitter does not write is judged like no frontmatter: emit() drops a frontmatter block that is None or blank; in validate_frontmatter the path a blank block takes (yaml.safe_load gives None, i.e. not a mapping) either is the `is None` branch (an explicit blank test) or only rebinds the parsed value to an empty mapping - it appends no error of its own and does not return, so the per-field REQUIRED checks run exactly as for an absent block", 2)
    em = run.project.mod("core.emitter")
    vm = run.project.mod("core.validator")
    efi = em.func("emit")
    drops_blank = any(isinstance(c, ast.Call) and isinstance(c.func, ast.Attribute) and c.func.attr == "strip" and "raw_frontmatter" in ast.unparse(c.func.value) for c in walk_no_nested(efi.node))
    writes = any(isinstance(c, ast.Attribute) and c.attr == "raw_frontmatter" for c in walk_no_nested(efi.node))
    if not writes:
        raise AnalysisError("emit(): raw_frontmatter is not read; the frontmatter clause of C09 is not decided")
    run.instance("R09.8", em.loc(efi.node), "emit() writes the frontmatter block only when it is not blank" if drops_blank else "emit() writes every non-None frontmatter block", ok=True, nontrivial=False)
    if not drops_blank:
        return  # blank blocks survive canonicalisation: both spellings take the same validator path
    fi = vm.func("validate_frontmatter")
    cfg = CFG(fi.node)
    praw = next((a.arg for a in fi.node.args.args if "frontmatter" in a.arg), None)  # type: ignore[attr-defined]
    if praw is None:
        raise AnalysisError("validate_frontmatter: frontmatter parameter not found")
    # an explicit blank test in front of the parse: `raw is None or not raw.strip()` / `not raw` / `not raw.strip()`
    loads = [n for n in cfg.nodes if n.ast is not None and n.kind == "stmt" and any(isinstance(c, ast.Call) and ast.unparse(c.func).endswith("safe_load") for c in ast.walk(n.ast))]
    if not loads:
        raise AnalysisError("validate_frontmatter: yaml.safe_load call not found")
    blank_routed = False
    for t, val in branch_conditions(cfg, loads[0].id):
        txt = ast.unparse(t)
        if not val and praw in txt and (".strip()" in txt or txt == f"not {praw}"):
            blank_routed = True
    if blank_routed:
        run.instance("R09.8", vm.loc(fi.node), "validate_frontmatter: a blank block is routed away before the YAML parse", ok=True)
        return
    tests = [n for n in cfg.nodes if n.kind == "test" and n.ast is not None and "isinstance" in ast.unparse(n.ast) and "dict" in ast.unparse(n.ast)]
    if not tests:
        raise AnalysisError("validate_frontmatter: no `isinstance(<parsed>, dict)` test found; which path a blank block takes is not decided")
    for tn in tests:
        neg = isinstance(tn.ast, ast.UnaryOp) and isinstance(tn.ast.op, ast.Not)
        lab = "t" if neg else "f"  # the edge taken when the parsed value is NOT a mapping
        starts = [s for s, l in cfg.succ[tn.id] if l == lab]
        other = {s for s, l in cfg.succ[tn.id] if l not in (lab, "x")}
        # statements only the not-a-mapping edge reaches (up to the join with the mapping edge)
        reach_other: set[int] = set()
        stack = list(other)
        while stack:
            x = stack.pop()
            if x in reach_other:
                continue
            reach_other.add(x)
            stack.extend(s for s, l in cfg.succ[x] if l != "x")
        region: list[int] = []
        stack = list(starts)
        seen: set[int] = set()
        while stack:
            x = stack.pop()
            if x in seen or x in reach_other:
                continue
            seen.add(x)
            region.append(x)
            stack.extend(s for s, l in cfg.succ[x] if l != "x")
        bad = None
        for x in region:
            a = cfg.nodes[x].ast
            if a is None:
                if x == cfg.exit:
                    bad = "leaves the function"
                continue
            if isinstance(a, (ast.Return, ast.Raise)):
                bad = f"`{norm(a)[:60]}`"
            elif any(isinstance(c, ast.Call) and isinstance(c.func, ast.Attribute) and c.func.attr in ("append", "extend") for c in ast.walk(a)):
                bad = f"`{norm(a)[:60]}`"
        run.instance("R09.8", vm.loc(tn.ast), "validate_frontmatter: the not-a-mapping path (taken by a blank block) adds no error and falls through to the per-field checks", ok=bad is None)
        if bad:
            run.violation("R09.8", vm, fi.qualname, tn.ast, f"the path of validate_frontmatter for a frontmatter that does not load as a mapping does {bad}: a blank frontmatter block (`---` / blank / `---`) loads as None and takes this path, while its canonical text has no frontmatter at all (the emitter drops blank blocks) and takes the `is None` branch - the document and its canonical text get different (code, field path) sets")
