"""C13 What a compiled grammar can generate, the validator accepts (constant fragments + CONST/ENUM flows)."""
from __future__ import annotations

import ast

from .. import bare, lexmodel, rx
from ..fsmodel import is_name
from ..report import Run
from ..source import AnalysisError, FuncInfo, norm, walk_no_nested


# ----------------------------------------------------------------------------- GBNF fragment -> NFA
class GbnfParser:
    def __init__(self, text: str, b: rx.Builder):
        self.t = text
        self.i = 0
        self.b = b

    def ws(self) -> None:
        while self.i < len(self.t) and self.t[self.i] in " \t\n":
            self.i += 1

    def parse_alt(self):
        alts = [self.parse_seq()]
        self.ws()
        while self.i < len(self.t) and self.t[self.i] == "|":
            self.i += 1
            alts.append(self.parse_seq())
            self.ws()
        return alts[0] if len(alts) == 1 else self.b.alt(*alts)

    def parse_seq(self):
        items = []
        while True:
            self.ws()
            if self.i >= len(self.t) or self.t[self.i] in "|)":
                break
            items.append(self.parse_item())
        return self.b.seq(*items) if items else self.b.empty()

    def parse_item(self):
        c = self.t[self.i]
        if c == '"':
            fr = self.b.lit(self.parse_literal())
        elif c == "[":
            fr = self.b.sym(self.parse_class())
        elif c == "(":
            self.i += 1
            fr = self.parse_alt()
            self.ws()
            if self.i >= len(self.t) or self.t[self.i] != ")":
                raise AnalysisError(f"GBNF fragment: unbalanced '(' in {self.t!r}")
            self.i += 1
        else:
            raise AnalysisError(f"GBNF fragment: unexpected {c!r} at {self.i} in {self.t!r} (rule references are not constant fragments)")
        while self.i < len(self.t) and self.t[self.i] in "?*+":
            q = self.t[self.i]
            self.i += 1
            if q == "?":
                fr = self.b.opt(fr)
            elif q == "*":
                fr = self.b.star(fr)
            else:
                fr = self.b.seq(fr, self.b.star(self._clone(fr)))
        return fr

    def _clone(self, fr):
        # re-parse is simpler than cloning: remember the source span of the last item
        raise AnalysisError("GBNF '+' on a non-class item is not supported by the fragment translator")

    def parse_literal(self) -> str:
        assert self.t[self.i] == '"'
        self.i += 1
        out = []
        while self.i < len(self.t) and self.t[self.i] != '"':
            ch = self.t[self.i]
            if ch == "\\":
                self.i += 1
                e = self.t[self.i]
                out.append({"n": "\n", "t": "\t", "r": "\r", '"': '"', "\\": "\\"}.get(e, e))
            else:
                out.append(ch)
            self.i += 1
        if self.i >= len(self.t):
            raise AnalysisError(f"GBNF fragment: unterminated literal in {self.t!r}")
        self.i += 1
        return "".join(out)

    def parse_class(self) -> frozenset[str]:
        assert self.t[self.i] == "["
        self.i += 1
        neg = False
        if self.t[self.i] == "^":
            neg = True
            self.i += 1
        chars: set[str] = set()
        prev = None
        while self.i < len(self.t) and self.t[self.i] != "]":
            ch = self.t[self.i]
            if ch == "\\":
                self.i += 1
                e = self.t[self.i]
                ch = {"n": "\n", "t": "\t", "r": "\r"}.get(e, e)
            if ch == "-" and prev is not None and self.i + 1 < len(self.t) and self.t[self.i + 1] != "]":
                self.i += 1
                hi = self.t[self.i]
                chars.update(chr(x) for x in range(ord(prev), ord(hi) + 1))
                prev = None
            else:
                chars.add(ch)
                prev = ch
            self.i += 1
        self.i += 1
        allsyms = self.b.all
        return frozenset(allsyms - chars) if neg else frozenset(c for c in chars if c in allsyms)


def gbnf_sim(lm: lexmodel.LexModel, fragment: str) -> rx.Sim:
    b = rx.Builder(lm.alphabet)  # type: ignore[arg-type]
    p = GbnfParser(fragment, b)
    # '+' support: expand  X+  textually into  X X*  for class items before parsing
    fr = GbnfParser(_expand_plus(fragment), b).parse_alt()
    return rx.Sim(b.finish(fr), lm.alphabet)  # type: ignore[arg-type]


def _expand_plus(s: str) -> str:
    """rewrite `[class]+` -> `[class] [class]*` and `"lit"+` likewise (groups with + are not used by the constant fragments)"""
    out = []
    i = 0
    while i < len(s):
        if s[i] == "[":
            j = i + 1
            while j < len(s) and s[j] != "]":
                j += 2 if s[j] == "\\" else 1
            item = s[i : j + 1]
            i = j + 1
            if i < len(s) and s[i] == "+":
                out.append(f"{item} {item}*")
                i += 1
            else:
                out.append(item)
        elif s[i] == '"':
            j = i + 1
            while j < len(s) and s[j] != '"':
                j += 2 if s[j] == "\\" else 1
            item = s[i : j + 1]
            i = j + 1
            if i < len(s) and s[i] == "+":
                out.append(f"{item} {item}*")
                i += 1
            else:
                out.append(item)
        else:
            if s[i] == "+" and out and out[-1].endswith(")"):
                raise AnalysisError("GBNF fragment: '+' on a group is not supported by the translator")
            out.append(s[i])
            i += 1
    return "".join(out)


def local_consts(run: Run, mod, fi: FuncInfo) -> dict:
    env: dict = {}
    for n in sorted([x for x in walk_no_nested(fi.node) if isinstance(x, ast.Assign)], key=lambda x: x.lineno):
        if len(n.targets) == 1 and isinstance(n.targets[0], ast.Name):
            v = run.project.try_fold(mod, n.value, env)
            if isinstance(v, (str, dict)):
                env[n.targets[0].id] = v
    return env


def check_number_kind(run: Run) -> None:
    run.rule("R13.7", "the reader hands the validator a number for a single NUMBER token: in Parser.parse_value, after the multi-word sub-branch of the NUMBER branch, every return is `token.value` (not the lexeme / a string), so every numeral the NUMBER fragment derives is read with the kind TYPE[NUMBER] accepts", 1)
    pm = run.project.mod("core.parser")
    fi = pm.func("Parser.parse_value")  # (`token` = the local bound from self.current(): octacheck.localnames)
    branch = None
    for n in walk_no_nested(fi.node):
        if isinstance(n, ast.If) and ast.unparse(n.test) == "token.type == TokenType.NUMBER":
            branch = n
    if branch is None:
        raise AnalysisError("parse_value: NUMBER branch not found")
    # sub-branches that look at what FOLLOWS the number (multi-word values, NUMBER[..]OPERATOR) legitimately return text;
    # everything else in the branch is the single-token path
    look = {n.targets[0].id for n in ast.walk(branch) if isinstance(n, ast.Assign) and len(n.targets) == 1 and isinstance(n.targets[0], ast.Name) and isinstance(n.value, ast.Call) and ast.unparse(n.value.func) in ("self.peek", "self._peek_past_brackets_at")}
    rets = []
    for st in branch.body:
        if isinstance(st, ast.Return):
            rets.append(st)
        elif isinstance(st, ast.If) and not ({x.id for x in ast.walk(st.test) if isinstance(x, ast.Name)} & look) and "self.peek()" not in ast.unparse(st.test):
            rets += [r for r in ast.walk(st) if isinstance(r, ast.Return)]
    bad = [r for r in rets if r.value is None or ast.unparse(r.value) != "token.value"]
    ok = bool(rets) and not bad
    run.instance("R13.7", pm.loc(branch), f"parse_value: standalone NUMBER returns {[ast.unparse(r.value) if r.value is not None else None for r in rets]}", ok=ok)
    for r in bad:
        run.violation("R13.7", pm, "Parser.parse_value", f"standalone NUMBER returns {ast.unparse(r.value) if r.value is not None else None}", f"for a single NUMBER token parse_value can return `{ast.unparse(r.value) if r.value is not None else None}` instead of the numeric value: a numeral the grammar's NUMBER rule derives (e.g. 007) reaches the validator as a string and TYPE[NUMBER] rejects a line the field's own rule generated")


def check(run: Run) -> None:
    lm = lexmodel.build(run.project)
    A = lm.alphabet
    assert A is not None
    gm = run.project.mod("core.gbnf_compiler")
    cm = run.project.mod("core.constraints")
    # the validator's side of the agreement for ENUM / TYPE / DATE: the grammar offers every allowed value itself, so an exact
    # member must be accepted as such (C08 R08.8), and the TYPE / DATE / ISO8601 acceptance conditions are the documented ones
    run.rule("R13.8", "ENUM on the validator's side (= C08 R08.8): an exact member is accepted before any prefix matching - the grammar derives every allowed value verbatim, including one that is a prefix of another (DRAFT / DRAFT_REVIEW)", 2)
    from . import c08 as _c08

    _c08._learn_result_helpers(cm)
    _c08._enum_shape(run, cm, "R13.8")
    run.rule("R13.9", "every kind -> Python type table of the validation code has the documented rows (STRING str, NUMBER int|float, BOOLEAN bool, LIST list; = C08 R08.9): a sibling table that narrows NUMBER to int makes the chain reject the 2.5 that the grammar's CONST literal generates", 1)
    _c08._sibling_kind_tables(run, "R13.9")
    run.rule("R13.1", "constant fragments: every text derivable from the BOOLEAN / NUMBER / DATE / ISO8601 fragment is read by the tokenizer model as exactly one token of the kind the constraint accepts (automata inclusion), and its content lies in the constraint's own language", 12)
    run.rule("R13.2", "CONST / ENUM: the text placed in the grammar for a value is produced by the emitter's emit_value (the one place that knows how to spell a value so the reader returns it unchanged) and then escaped for GBNF", 2)
    run.rule("R13.3", "compile_chain picks the rule of the most specific member in the documented order CONST > ENUM > REGEX > TYPE > DATE/ISO8601", 1)
    run.rule("R13.4", "the field rule is \"NAME\" \"::\" <separator> <fragment>, and the separator derives only spaces (a tab is a lexer error, a line break detaches the value)", 2)
    run.rule("R13.5", "the reader side of the model is bound to the code: tokens keep their pattern's type and identifiers are not retyped (shared with C04 R04.3)", 2)

    bare.check_token_construction(run, "R13.5")
    # the validator side: a generated false / 0 is a present value, not a missing field; every chain error is reported as is
    run.rule("R13.6", "validator side of the agreement (shared with C08 R08.6): REQ-missing is `has_req and value is None` (false and 0 are present values), the chain is evaluated on the read value unchanged; bool before number in TYPE", 6)
    from .c04 import check_bool_before_int
    from .c08 import _document_level

    _document_level(run, run.project.mod("core.validator"), rule="R13.6")
    check_bool_before_int(run, "R13.6", [("core.constraints", "TypeConstraint.evaluate")])

    # ---------------------------------------------------------------- fragments
    ct = gm.func("GBNFCompiler._compile_type")
    env = local_consts(run, gm, ct)
    tp = None
    for v in env.values():
        if isinstance(v, dict) and "NUMBER" in v and "BOOLEAN" in v:
            tp = v
    if tp is None:
        # the same table as a module-level constant read by _compile_type
        for n in walk_no_nested(ct.node):
            if isinstance(n, ast.Name) and isinstance(n.ctx, ast.Load) and gm.has_const(n.id):
                v = run.project.try_fold(gm, n)
                if isinstance(v, dict) and "NUMBER" in v and "BOOLEAN" in v:
                    tp = v
    if tp is None:
        raise AnalysisError("_compile_type: constant type_patterns table not found")
    frags = {"NUMBER": tp["NUMBER"], "BOOLEAN": tp["BOOLEAN"]}
    for name, fn in (("DATE", "GBNFCompiler._compile_date"), ("ISO8601", "GBNFCompiler._compile_iso8601")):
        fi = gm.func(fn)
        env = local_consts(run, gm, fi)
        rets = [n for n in walk_no_nested(fi.node) if isinstance(n, ast.Return)]
        if len(rets) != 1:
            raise AnalysisError(f"{fn}: expected one return")
        v = run.project.try_fold(gm, rets[0].value, env)
        if not isinstance(v, str):
            raise AnalysisError(f"{fn}: returned fragment is not a constant")
        frags[name] = v
    run.extra["fragments"] = frags

    tok = lm.token_patterns
    def tok_sims(kind: str):
        return [(i, p) for i, (p, t) in enumerate(tok) if t == kind]

    def earlier_prefix_free(name: str, fsim: rx.Sim, reader_idx: int) -> None:
        for i, (p, t) in enumerate(tok[:reader_idx]):
            if t in bare.SKIP_TYPES:
                continue
            try:
                pre = lexmodel.regex_sim(lm, p, prefix=True)
            except rx.Unsupported:
                lit = _literal_prefix(p)
                if not lit:
                    raise AnalysisError(f"token regex #{i} {p!r} is untranslatable and has no literal prefix")
                pre = lexmodel.regex_sim(lm, "".join("\\x%02x" % ord(c) if ord(c) < 128 else c for c in lit), prefix=True)
            w = rx.intersect_witness(fsim, pre, A)
            run.instance("R13.1", gm.relpath, f"{name}: no earlier token regex (#{i} {t} {p!r}) matches a prefix of a derivable text", ok=w is None, witness=w)
            if w is not None:
                run.violation("R13.1", gm, None, f"{name} fragment vs token #{i} {t}", f"the {name} rule derives `{w}`, which the tokenizer reads first as a {t} token ({p!r}), not as the value kind the constraint accepts", witness=w, fragment=frags[name])

    # BOOLEAN
    fsim = gbnf_sim(lm, frags["BOOLEAN"])
    bidx = tok_sims("BOOLEAN")
    if not bidx:
        raise AnalysisError("no BOOLEAN token regex")
    reader = lexmodel.regex_sim(lm, "|".join(f"(?:{p})" for _, p in bidx))
    w = rx.not_included_witness(fsim, reader, A)
    run.instance("R13.1", gm.relpath, f"BOOLEAN fragment {frags['BOOLEAN']!r} ⊆ BOOLEAN token language", ok=w is None, witness=w)
    if w is not None:
        run.violation("R13.1", gm, "GBNFCompiler._compile_type", "BOOLEAN fragment", f"the BOOLEAN rule derives `{w}`, which is not a BOOLEAN token of the reader (TYPE[BOOLEAN] would reject what the grammar generates)", witness=w)
    earlier_prefix_free("BOOLEAN", fsim, bidx[0][0])
    # NUMBER
    fsim = gbnf_sim(lm, frags["NUMBER"])
    nidx = tok_sims("NUMBER")
    reader = lexmodel.regex_sim(lm, nidx[0][1])
    w = rx.not_included_witness(fsim, reader, A)
    run.instance("R13.1", gm.relpath, f"NUMBER fragment {frags['NUMBER']!r} ⊆ NUMBER token language", ok=w is None, witness=w)
    if w is not None:
        run.violation("R13.1", gm, "GBNFCompiler._compile_type", "NUMBER fragment", f"the NUMBER rule derives `{w}`, which the reader does not read as one NUMBER token", witness=w)
    earlier_prefix_free("NUMBER", fsim, nidx[0][0])
    # the RANGE fragment is the same numeric pattern
    rg = gm.func("GBNFCompiler._compile_range")
    rv = [run.project.try_fold(gm, n.value) for n in walk_no_nested(rg.node) if isinstance(n, ast.Return)]
    ok = rv == [frags["NUMBER"]]
    run.instance("R13.1", gm.loc(rg.node), "RANGE compiles to the same numeric fragment as TYPE[NUMBER]", ok=ok, nontrivial=False)

    # DATE / ISO8601: one STRING token whose content is in the constraint's own language
    sidx = [(i, p) for i, p in tok_sims("STRING") if not p.startswith('"""')]
    if not sidx:
        raise AnalysisError("no single-quote STRING token regex")
    string_reader = lexmodel.regex_sim(lm, sidx[0][1])
    date_fi = cm.func("DateConstraint.evaluate")
    date_rx = None
    for n in walk_no_nested(date_fi.node):
        if isinstance(n, ast.Call) and ast.unparse(n.func) in ("re.match", "re.fullmatch") and n.args and isinstance(n.args[0], ast.Constant):
            date_rx = n.args[0].value
    if date_rx is None:
        raise AnalysisError("DateConstraint.evaluate: date regex not found")
    iso_fi = cm.func("Iso8601Constraint.compile")
    iso_rx = [n.value.value for n in walk_no_nested(iso_fi.node) if isinstance(n, ast.Return) and isinstance(n.value, ast.Constant)]
    if len(iso_rx) != 1:
        raise AnalysisError("Iso8601Constraint.compile: pattern not found")
    shapes = {"DATE": date_rx.lstrip("^").rstrip("$"), "ISO8601": iso_rx[0]}
    plausible = {
        "DATE": r"\d{4}-(?:0[1-9]|1[0-2])-(?:0[1-9]|[12]\d|3[01])",
        "ISO8601": r"\d{4}-(?:0[1-9]|1[0-2])-(?:0[1-9]|[12]\d|3[01])(?:T(?:[01]\d|2[0-3]):[0-5]\d:[0-5]\d(?:Z|[+-](?:[01]\d|2[0-3]):[0-5]\d)?)?",
    }
    for name in ("DATE", "ISO8601"):
        fsim = gbnf_sim(lm, frags[name])
        w = rx.not_included_witness(fsim, string_reader, A)
        run.instance("R13.1", gm.relpath, f"{name} fragment derives only texts that are one quoted STRING token", ok=w is None, witness=w)
        if w is not None:
            run.violation("R13.1", gm, f"GBNFCompiler._compile_{name.lower()}", f"{name} fragment is not a quoted string", f"the {name} rule derives `{w}`, which the reader does not read as one STRING token (a bare date is lexed as several numbers and reaches the constraint as \"2024 -01 -15\")", witness=w, fragment=frags[name])
            continue
        earlier_prefix_free(name, fsim, sidx[0][0])
        # content in the constraint's language (no escapes occur inside: the content alphabet has no backslash)
        expected = lexmodel.regex_sim(lm, '"' + shapes[name] + '"')
        ascii_only = lexmodel.regex_sim(lm, r"[\x00-\x7f]*")
        w = rx.search_n([fsim, expected], A, lambda v: v[0] and not v[1], need=(0,))
        run.instance("R13.1", gm.relpath, f"{name}: quoted content ⊆ the constraint's own pattern {shapes[name]!r}", ok=w is None, witness=w)
        if w is not None:
            run.violation("R13.1", gm, f"GBNFCompiler._compile_{name.lower()}", f"{name} fragment vs constraint pattern", f"the {name} rule derives `{w}`, whose content does not match the {name} constraint's own pattern {shapes[name]!r}", witness=w)
        cal = lexmodel.regex_sim(lm, '"' + plausible[name] + '"')
        w = rx.search_n([fsim, cal], A, lambda v: v[0] and not v[1], need=(0,))
        run.instance("R13.1", gm.relpath, f"{name}: every derivable value is at least a plausible calendar date/time (month 01-12, day 01-31, hour 00-23 ...)", ok=w is None, witness=w)
        if w is not None:
            run.violation("R13.1", gm, f"GBNFCompiler._compile_{name.lower()}", f"{name} fragment derives impossible dates", f"the {name} rule derives `{w}`: digit positions are unconstrained, so the grammar generates month 00/13, day 00/32 (and hour 24+), which datetime.fromisoformat - hence the {name} constraint - rejects", witness=w)

    # ---------------------------------------------------------------- R13.2
    for fn, src in (("GBNFCompiler._compile_const", "const_value"), ("GBNFCompiler._compile_enum", "allowed_values")):
        fi = gm.func(fn)
        calls = [n for n in walk_no_nested(fi.node) if isinstance(n, ast.Call) and ast.unparse(n.func) == "self._escape_literal"]
        ok = bool(calls)
        for c in calls:
            a = c.args[0] if c.args else None
            # the escaped thing is emit_value(<the value>) directly, or a name bound to it
            def is_emit(e) -> bool:
                if isinstance(e, ast.Call) and ast.unparse(e.func) in ("emit_value", "emitter.emit_value") and len(e.args) == 1:
                    return True
                if isinstance(e, ast.Name):
                    defs = [x.value for x in walk_no_nested(fi.node) if isinstance(x, ast.Assign) and any(is_name(t, e.id) for t in x.targets)]
                    return bool(defs) and all(is_emit(d) for d in defs)
                return False
            ok = ok and is_emit(a)
        run.instance("R13.2", gm.loc(fi.node), f"{fn}: grammar literal text = _escape_literal(emit_value(<{src}>))", ok=ok)
        if not ok:
            run.violation("R13.2", gm, fn, f"literal text for {src}", f"{fn} spells the value with something other than the emitter's emit_value (e.g. str()): a string such as \"true\", \"42\" or \"in progress\" is generated unquoted and read back as another kind of value, which the field's own CONST/ENUM rejects")

    # ---------------------------------------------------------------- R13.3
    cc = gm.func("GBNFCompiler.compile_chain")
    order = []
    for n in sorted([x for x in walk_no_nested(cc.node) if isinstance(x, ast.For)], key=lambda x: x.lineno):
        for t in walk_no_nested(n):
            if isinstance(t, ast.Call) and ast.unparse(t.func) == "isinstance" and len(t.args) == 2:
                order.append(ast.unparse(t.args[1]))
    # ... or one nested loop over an ordered priority table: `for kind in TABLE: for c in chain.constraints: if isinstance(c, kind)`
    if len(set(order)) == 1 and order:
        outer = [x for x in walk_no_nested(cc.node) if isinstance(x, ast.For) and isinstance(x.target, ast.Name) and x.target.id == order[0] and isinstance(x.iter, ast.Name) and gm.has_const(x.iter.id)]
        if len(outer) == 1 and any(isinstance(y, ast.For) for y in outer[0].body):
            table = gm.const_node(outer[0].iter.id)
            if isinstance(table, (ast.Tuple, ast.List)):
                order = [" | ".join(ast.unparse(e) for e in r.elts) if isinstance(r, ast.Tuple) else ast.unparse(r) for r in table.elts]
    # ... or the same two loops as one generator: `next((c for kind in TABLE for c in chain.constraints if isinstance(c, kind)), ...)`
    if not order:
        for g in walk_no_nested(cc.node):
            if isinstance(g, (ast.GeneratorExp, ast.ListComp)) and len(g.generators) == 2 and isinstance(g.generators[0].target, ast.Name) and isinstance(g.generators[0].iter, ast.Name) and gm.has_const(g.generators[0].iter.id) and not g.generators[0].ifs:
                kind = g.generators[0].target.id
                inner = g.generators[1]
                tests = [t for c in inner.ifs for t in ast.walk(c) if isinstance(t, ast.Call) and ast.unparse(t.func) == "isinstance" and len(t.args) == 2]
                first_taken = isinstance(getattr(g, "_parent", None), ast.Call) and ast.unparse(g._parent.func) == "next" and g._parent.args and g._parent.args[0] is g  # type: ignore[attr-defined]
                if len(tests) == 1 and len(inner.ifs) == 1 and inner.ifs[0] is tests[0] and ast.unparse(tests[0].args[1]) == kind and ast.unparse(tests[0].args[0]) == ast.unparse(inner.target) == ast.unparse(g.elt) and first_taken:
                    table = gm.const_node(g.generators[0].iter.id)
                    if isinstance(table, (ast.Tuple, ast.List)):
                        order = [" | ".join(ast.unparse(e) for e in r.elts) if isinstance(r, ast.Tuple) else ast.unparse(r) for r in table.elts]
    want = ["ConstConstraint", "EnumConstraint", "RegexConstraint", "TypeConstraint", "DateConstraint | Iso8601Constraint"]
    ok = [o.replace("(", "").replace(")", "").replace(", ", " | ") for o in order] == want
    run.instance("R13.3", gm.loc(cc.node), f"compile_chain priority {order}", ok=ok)
    if not ok:
        run.violation("R13.3", gm, cc.qualname, "priority CONST > ENUM > REGEX > TYPE > DATE/ISO8601", f"compile_chain selects members in the order {order}: a less specific member would shape the rule (e.g. TYPE[STRING] before ENUM), so the grammar generates values the ENUM/CONST of the same chain rejects")

    # ---------------------------------------------------------------- R13.4
    from .c12 import grammar_builder_view

    cs, _inl = grammar_builder_view(gm)  # compile_schema with extracted grammar-building helpers inlined
    tmpl = None
    for n in walk_no_nested(cs.node):
        if isinstance(n, ast.JoinedStr):
            consts = "".join(str(v.value) if isinstance(v, ast.Constant) else "\x00" for v in n.values)
            if '"::"' in consts and "::=" in consts:
                tmpl = consts
    ok = tmpl is not None and tmpl.count("\x00") == 3 and tmpl.split('"::"')[1].strip().split()[0] in ("ws", "sp")
    sep = tmpl.split('"::"')[1].strip().split()[0] if tmpl and '"::"' in tmpl else None
    run.instance("R13.4", gm.loc(cs.node), f"field rule template `{(tmpl or '').replace(chr(0), '{..}')}` (separator rule: {sep})", ok=bool(ok))
    if not ok:
        run.violation("R13.4", gm, cs.qualname, "field rule template", "the field rule is no longer `<rule> ::= \"NAME\" \"::\" <separator> <fragment>`")
    sep_def = None
    for n in walk_no_nested(cs.node):
        if isinstance(n, ast.Constant) and isinstance(n.value, str) and sep and n.value.startswith(f"{sep} ::= "):
            sep_def = n.value.split("::=", 1)[1].strip()
    if sep_def is None:
        raise AnalysisError(f"definition of separator rule `{sep}` not found among compile_schema's constants")
    ssim = gbnf_sim(lm, sep_def)
    spaces = lexmodel.regex_sim(lm, " *")
    w = rx.not_included_witness(ssim, spaces, A)
    run.instance("R13.4", gm.loc(cs.node), f"separator `{sep} ::= {sep_def}` derives only spaces", ok=w is None, witness=repr(w) if w is not None else None)
    if w is not None:
        run.violation("R13.4", gm, cs.qualname, f"{sep} ::= {sep_def} between \"::\" and the value", f"between `::` and the value the grammar can derive {w!r}: a tab makes the lexer raise E005 and a line break detaches the value from its key, so a generated line is not read as FIELD::value",
                      witness=repr(w), failing_input="any schema: derive NAME::<TAB>value from the field rule -> LexerError E005 (tabs are not allowed)")
    check_number_kind(run)


def _literal_prefix(pattern: str) -> str:
    import re._constants as sc  # type: ignore[import-not-found]
    import re._parser as sp  # type: ignore[import-not-found]

    out = []
    for op, av in sp.parse(pattern):
        if op is sc.LITERAL:
            out.append(chr(av))
        else:
            break
    return "".join(out)
