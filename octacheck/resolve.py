"""E2: callee resolution and call graph over the parsed package (no imports executed)."""
from __future__ import annotations

import ast
from dataclasses import dataclass
from typing import Iterator

from .source import ClassInfo, FuncInfo, Module, Project, walk_no_nested

# method names too generic to resolve by name alone (builtin container / str methods)
GENERIC_METHODS = {
    "append", "extend", "get", "items", "keys", "values", "pop", "add", "update", "join", "split", "strip",
    "lstrip", "rstrip", "startswith", "endswith", "replace", "lower", "upper", "format", "encode", "decode",
    "copy", "index", "count", "insert", "remove", "sort", "match", "search", "group", "groups", "end", "start",
    "read", "write", "close", "flush", "fileno", "exists", "is_file", "is_dir", "resolve", "setdefault", "clear",
    "isdigit", "isalpha", "isalnum", "isspace", "find", "rfind", "splitlines", "partition", "rpartition", "title",
    "casefold", "hexdigest", "digest", "is_symlink", "mkdir", "read_text", "write_text", "unlink", "with_suffix",
    "relative_to", "is_absolute", "absolute", "expanduser", "open", "stat", "lstat", "iterdir", "glob", "rglob",
    "echo", "__init__", "fullmatch", "sub", "finditer", "findall", "zfill", "ljust", "rjust", "isupper", "islower",
    "discard", "union", "intersection", "difference", "issubset", "total_seconds", "isoformat", "to_dict",
}


@dataclass
class Callee:
    kind: str  # 'repo' | 'ext' | 'method' | 'unknown'
    name: str  # fqn for repo ("mod:qual"), dotted for ext, ".attr" for method
    func: FuncInfo | None = None


class Resolver:
    def __init__(self, project: Project):
        self.p = project
        self.class_index: dict[str, list[ClassInfo]] = {}
        self.method_index: dict[str, list[FuncInfo]] = {}
        for m in project.modules.values():
            for ci in m.classes.values():
                self.class_index.setdefault(ci.name, []).append(ci)
                for name, fi in ci.methods.items():
                    self.method_index.setdefault(name, []).append(fi)
        self._local_types_cache: dict[int, dict[str, str]] = {}
        self._self_attr_types: dict[tuple[str, str], dict[str, str]] = {}
        self._callgraph: dict[str, set[str]] | None = None
        self.stats = {"calls": 0, "repo": 0, "ext": 0, "method": 0, "unknown": 0}

    # ------------------------------------------------------------- helpers
    def lookup_name(self, m: Module, fn: ast.AST | None, name: str) -> tuple[str, object] | None:
        """resolve a bare name visible in function fn of module m.
        returns ('func', FuncInfo) | ('class', ClassInfo) | ('module', dotted) | ('ext', dotted)"""
        # nested function defined in enclosing function chain
        cur = fn
        while cur is not None:
            if isinstance(cur, (ast.FunctionDef, ast.AsyncFunctionDef)):
                qn = getattr(cur, "_qualname", None)
                if qn:
                    cand = f"{qn}.<locals>.{name}"
                    if cand in m.functions:
                        return ("func", m.functions[cand])
            cur = getattr(cur, "_parent", None)
        if name in m.functions and m.functions[name].cls is None and m.functions[name].parent_func is None:
            return ("func", m.functions[name])
        if name in m.classes:
            return ("class", m.classes[name])
        imports = m.function_imports(fn) if fn is not None else m.imports
        tgt = imports.get(name)
        if tgt is None:
            return None
        return self.lookup_dotted(tgt)

    def lookup_dotted(self, dotted: str) -> tuple[str, object] | None:
        if dotted in self.p.modules:
            return ("module", dotted)
        modname, _, attr = dotted.rpartition(".")
        seen = set()
        while modname in self.p.modules and (modname, attr) not in seen:
            seen.add((modname, attr))
            mm = self.p.modules[modname]
            if attr in mm.functions and mm.functions[attr].cls is None:
                return ("func", mm.functions[attr])
            if attr in mm.classes:
                return ("class", mm.classes[attr])
            if attr in mm.imports:  # re-export
                nxt = mm.imports[attr]
                if nxt in self.p.modules:
                    return ("module", nxt)
                modname, _, attr = nxt.rpartition(".")
                continue
            if mm.has_const(attr):
                return ("const", (mm, attr))
            break
        return ("ext", dotted)

    def mro(self, ci: ClassInfo) -> list[ClassInfo]:
        out = [ci]
        seen = {id(ci)}
        i = 0
        while i < len(out):
            c = out[i]
            i += 1
            for b in c.bases:
                bname = b.split("[")[0].split(".")[-1]
                r = self.lookup_name(c.module, None, bname)
                if r and r[0] == "class" and id(r[1]) not in seen:
                    seen.add(id(r[1]))
                    out.append(r[1])  # type: ignore[arg-type]
        return out

    def find_method(self, ci: ClassInfo, name: str) -> FuncInfo | None:
        for c in self.mro(ci):
            if name in c.methods:
                return c.methods[name]
        return None

    def subclasses(self, base: ClassInfo) -> list[ClassInfo]:
        out = []
        for lst in self.class_index.values():
            for ci in lst:
                if ci is not base and base in self.mro(ci):
                    out.append(ci)
        return out

    def class_of_annotation(self, m: Module, fn: ast.AST | None, ann: ast.AST | None) -> ClassInfo | None:
        if ann is None:
            return None
        if isinstance(ann, ast.Constant) and isinstance(ann.value, str):
            try:
                ann = ast.parse(ann.value, mode="eval").body
            except SyntaxError:
                return None
        if isinstance(ann, ast.BinOp) and isinstance(ann.op, ast.BitOr):
            return self.class_of_annotation(m, fn, ann.left) or self.class_of_annotation(m, fn, ann.right)
        if isinstance(ann, ast.Name):
            r = self.lookup_name(m, fn, ann.id)
            if r and r[0] == "class":
                return r[1]  # type: ignore[return-value]
        if isinstance(ann, ast.Attribute):
            r2 = self.class_index.get(ann.attr)
            if r2 and len(r2) == 1:
                return r2[0]
        return None

    def local_types(self, fi: FuncInfo) -> dict[str, ClassInfo]:
        key = id(fi.node)
        if key in self._local_types_cache:
            return self._local_types_cache[key]  # type: ignore[return-value]
        m = fi.module
        types: dict[str, ClassInfo] = {}
        fn = fi.node
        args = fn.args  # type: ignore[attr-defined]
        for a in list(args.posonlyargs) + list(args.args) + list(args.kwonlyargs):
            ci = self.class_of_annotation(m, fn, a.annotation)
            if ci:
                types[a.arg] = ci
        if fi.cls and fi.cls in m.classes and args.args and args.args[0].arg in ("self",):
            types["self"] = m.classes[fi.cls]
        for n in walk_no_nested(fn):
            tgt = None
            val = None
            if isinstance(n, ast.Assign) and len(n.targets) == 1 and isinstance(n.targets[0], ast.Name):
                tgt, val = n.targets[0].id, n.value
            elif isinstance(n, ast.AnnAssign) and isinstance(n.target, ast.Name):
                ci = self.class_of_annotation(m, fn, n.annotation)
                if ci:
                    types[n.target.id] = ci
                continue
            elif isinstance(n, ast.withitem) and isinstance(n.optional_vars, ast.Name):
                tgt, val = n.optional_vars.id, n.context_expr
            if tgt and isinstance(val, ast.Call):
                c = val.func
                if isinstance(c, ast.Name):
                    r = self.lookup_name(m, fn, c.id)
                    if r and r[0] == "class":
                        types.setdefault(tgt, r[1])  # type: ignore[arg-type]
                    elif r and r[0] == "func":
                        ci = self.class_of_annotation(r[1].module, r[1].node, r[1].node.returns)  # type: ignore[union-attr]
                        if ci:
                            types.setdefault(tgt, ci)
        self._local_types_cache[key] = types  # type: ignore[assignment]
        return types

    def self_attr_types(self, ci: ClassInfo) -> dict[str, ClassInfo]:
        key = (ci.module.name, ci.name)
        if key in self._self_attr_types:
            return self._self_attr_types[key]  # type: ignore[return-value]
        out: dict[str, ClassInfo] = {}
        for c in self.mro(ci):
            for fi in c.methods.values():
                for n in walk_no_nested(fi.node):
                    if isinstance(n, ast.Assign) and len(n.targets) == 1:
                        t = n.targets[0]
                        if isinstance(t, ast.Attribute) and isinstance(t.value, ast.Name) and t.value.id == "self":
                            cands = [n.value] + (list(n.value.values) if isinstance(n.value, ast.BoolOp) else []) + ([n.value.body, n.value.orelse] if isinstance(n.value, ast.IfExp) else [])
                            for v in cands:
                                if isinstance(v, ast.Call) and isinstance(v.func, ast.Name):
                                    r = self.lookup_name(c.module, fi.node, v.func.id)
                                    if r and r[0] == "class":
                                        out.setdefault(t.attr, r[1])  # type: ignore[arg-type]
                                elif isinstance(v, ast.Name):
                                    pt = self.local_types(fi).get(v.id)
                                    if pt is not None:
                                        out.setdefault(t.attr, pt)
                    elif isinstance(n, ast.AnnAssign) and isinstance(n.target, ast.Attribute) and isinstance(n.target.value, ast.Name) and n.target.value.id == "self":
                        cc = self.class_of_annotation(c.module, fi.node, n.annotation)
                        if cc:
                            out.setdefault(n.target.attr, cc)
        self._self_attr_types[key] = out  # type: ignore[assignment]
        return out

    def expr_class(self, fi: FuncInfo, e: ast.AST) -> ClassInfo | None:
        if isinstance(e, ast.Name):
            return self.local_types(fi).get(e.id)
        if isinstance(e, ast.Attribute) and isinstance(e.value, ast.Name) and e.value.id == "self":
            lt = self.local_types(fi).get("self")
            if lt:
                return self.self_attr_types(lt).get(e.attr)
        if isinstance(e, ast.Call) and isinstance(e.func, ast.Name):
            r = self.lookup_name(fi.module, fi.node, e.func.id)
            if r and r[0] == "class":
                return r[1]  # type: ignore[return-value]
        return None

    # -------------------------------------------------------------- resolve
    def dotted_of(self, fi: FuncInfo | None, m: Module, e: ast.AST) -> str | None:
        """external dotted name of an expression like os.path.join / Path / tempfile.mkstemp"""
        parts = []
        cur = e
        while isinstance(cur, ast.Attribute):
            parts.append(cur.attr)
            cur = cur.value
        if not isinstance(cur, ast.Name):
            return None
        imports = m.function_imports(fi.node) if fi is not None else m.imports
        base = imports.get(cur.id)
        if base is None:
            if cur.id in __builtins__ if isinstance(__builtins__, dict) else hasattr(__builtins__, cur.id):
                base = "builtins." + cur.id
            else:
                return None
        return ".".join([base] + list(reversed(parts)))

    def resolve_call(self, fi: FuncInfo, call: ast.Call) -> list[Callee]:
        m = fi.module
        f = call.func
        self.stats["calls"] += 1
        out = self._resolve_callee_expr(fi, m, f)
        k = out[0].kind if out else "unknown"
        self.stats[k] = self.stats.get(k, 0) + 1
        return out

    def _resolve_callee_expr(self, fi: FuncInfo, m: Module, f: ast.AST) -> list[Callee]:
        if isinstance(f, ast.Name):
            # local variable shadowing? (assigned in function) - treat params/locals as unknown unless typed
            r = self.lookup_name(m, fi.node, f.id)
            if r is None:
                bi = __builtins__ if isinstance(__builtins__, dict) else vars(__builtins__)
                if f.id in bi:
                    return [Callee("ext", "builtins." + f.id)]
                return [Callee("unknown", f.id)]
            if r[0] == "func":
                return [Callee("repo", r[1].fqn, r[1])]  # type: ignore[union-attr]
            if r[0] == "class":
                ci: ClassInfo = r[1]  # type: ignore[assignment]
                outc = []
                for nm in ("__init__", "__post_init__", "__new__"):
                    init = self.find_method(ci, nm)
                    if init:
                        outc.append(Callee("repo", init.fqn, init))
                return outc or [Callee("ext", f"{ci.module.name}.{ci.name}")]
            if r[0] == "ext":
                return [Callee("ext", r[1])]  # type: ignore[arg-type]
            return [Callee("unknown", f.id)]
        if isinstance(f, ast.Attribute):
            recv = f.value
            # super().m()
            if isinstance(recv, ast.Call) and isinstance(recv.func, ast.Name) and recv.func.id == "super" and fi.cls and fi.cls in m.classes:
                for c in self.mro(m.classes[fi.cls])[1:]:
                    if f.attr in c.methods:
                        return [Callee("repo", c.methods[f.attr].fqn, c.methods[f.attr])]
                return [Callee("ext", "super." + f.attr)]
            ci2 = self.expr_class(fi, recv)
            if ci2 is not None:
                meth = self.find_method(ci2, f.attr)
                if meth:
                    outm = [Callee("repo", meth.fqn, meth)]
                    # dynamic dispatch: overriding subclasses
                    for sc in self.subclasses(ci2):
                        if f.attr in sc.methods:
                            outm.append(Callee("repo", sc.methods[f.attr].fqn, sc.methods[f.attr]))
                    return outm
            if isinstance(recv, ast.Name):
                r = self.lookup_name(m, fi.node, recv.id)
                if r is not None:
                    if r[0] == "class":
                        meth = self.find_method(r[1], f.attr)  # type: ignore[arg-type]
                        if meth:
                            return [Callee("repo", meth.fqn, meth)]
                    if r[0] == "module":
                        r2 = self.lookup_dotted(f"{r[1]}.{f.attr}")
                        if r2 and r2[0] == "func":
                            return [Callee("repo", r2[1].fqn, r2[1])]  # type: ignore[union-attr]
                        if r2 and r2[0] == "class":
                            init = self.find_method(r2[1], "__init__")  # type: ignore[arg-type]
                            return [Callee("repo", init.fqn, init)] if init else [Callee("ext", f"{r[1]}.{f.attr}")]
                    if r[0] == "ext":
                        return [Callee("ext", f"{r[1]}.{f.attr}")]
            d = self.dotted_of(fi, m, f)
            if d is not None and not d.startswith("builtins."):
                r3 = self.lookup_dotted(d)
                if r3 and r3[0] == "func":
                    return [Callee("repo", r3[1].fqn, r3[1])]  # type: ignore[union-attr]
                return [Callee("ext", d)]
            # by-name resolution for distinctive method names
            if f.attr not in GENERIC_METHODS and f.attr in self.method_index:
                return [Callee("repo", x.fqn, x) for x in self.method_index[f.attr]]
            return [Callee("method", "." + f.attr)]
        return [Callee("unknown", type(f).__name__)]

    # ---------------------------------------------------------- call graph
    def calls_in(self, fi: FuncInfo) -> Iterator[tuple[ast.Call, list[Callee]]]:
        for n in walk_no_nested(fi.node):
            if isinstance(n, ast.Call):
                yield n, self.resolve_call(fi, n)

    def callgraph(self) -> dict[str, set[str]]:
        if self._callgraph is not None:
            return self._callgraph
        g: dict[str, set[str]] = {}
        for fi in self.p.all_functions():
            s = g.setdefault(fi.fqn, set())
            for _, callees in self.calls_in(fi):
                for c in callees:
                    if c.kind == "repo":
                        s.add(c.name)
            # nested functions are (conservatively) callable from their parent
            for other in fi.module.functions.values():
                if other.parent_func == fi.qualname:
                    s.add(other.fqn)
            # function references passed as values (callbacks): Name loads that resolve to repo functions
            for n in walk_no_nested(fi.node):
                if isinstance(n, ast.Name) and isinstance(n.ctx, ast.Load):
                    par = getattr(n, "_parent", None)
                    if isinstance(par, ast.Call) and par.func is n:
                        continue
                    r = self.lookup_name(fi.module, fi.node, n.id)
                    if r and r[0] == "func":
                        s.add(r[1].fqn)  # type: ignore[union-attr]
        self._callgraph = g
        return g

    def reachable_from(self, roots: list[str]) -> set[str]:
        g = self.callgraph()
        seen = set()
        stack = list(roots)
        while stack:
            n = stack.pop()
            if n in seen:
                continue
            seen.add(n)
            stack.extend(g.get(n, ()))
        return seen

    def func_by_fqn(self, fqn: str) -> FuncInfo:
        modname, _, qn = fqn.partition(":")
        return self.p.modules[modname].functions[qn]
