"""octacheck: repository-specific static checkers for elevanaltd/octave-mcp (properties C01-C20)."""
