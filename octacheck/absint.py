"""Path-sensitive abstract interpretation of a function's CFG for the response-envelope typestate (C10).

The state is a small finite map of facts about local names:
  nn:<v>   'N' | 'NN'            v is None / is not None
  tr:<v>   'T' | 'F'             truthiness of v (non-empty list, True flag, ...)
  lk:<v>   text                  v was bound from this pure schema-lookup call
  vs:<v>   'N' | 'NN' | '?'      v is a Validator whose schema argument was None / not None / unknown
  st:<v>   text                  v holds this string constant
  ex:<v>   text                  v holds the value of this side-effect-free boolean expression
  d:<v>    Envelope              v is a response dict with these abstract keys
  errvar   name                  the local most recently bound from Validator.validate(...)
  lenient  'T' | 'F'             the profile test `profile in ("LENIENT","ULTRA")` was taken / not taken
States are propagated as *sets* per CFG node (no join of different states), so correlations between
facts survive; tests refine the state per outgoing edge and infeasible edges are dropped.
"""
from __future__ import annotations

import ast
from dataclasses import dataclass, replace
from typing import Any, Callable, Iterable

from .cfg import CFG, Node
from .source import AnalysisError, FuncInfo, walk_no_nested

TOP = "<?>"
ABSENT = "<absent>"

LOOKUPS = ("get_builtin_schema", "load_schema_by_name", "load_schema")
STATUS_KEY = "validation_status"
STATUSES = ("VALIDATED", "UNVALIDATED", "INVALID")


@dataclass(frozen=True)
class Envelope:
    status: str = ABSENT  # a literal, TOP or ABSENT
    valid: str = ABSENT  # 'T' | 'F' | TOP | ABSENT
    verrs: str = ABSENT  # 'E' empty | 'N' non-empty | TOP | ABSENT
    name: bool = False
    version: bool = False
    counted: bool = False  # validation_error_count was taken while verrs was non-empty

    def describe(self) -> str:
        return f"status={self.status} valid={self.valid} validation_errors={self.verrs} schema_name={self.name} schema_version={self.version}"


State = tuple  # sorted tuple of (key, value)


def _get(st: dict, k: str, default=None):
    return st.get(k, default)


class Interp:
    def __init__(self, fi: FuncInfo, helper_envelopes: Callable[[ast.Call], list[Envelope] | None], max_states: int = 4000):
        self.fi = fi
        self.cfg = CFG(fi.node)
        self.helper_envelopes = helper_envelopes
        # optional: summaries of helpers that return a tuple -- call -> per position (maybe_none, envelopes | None)
        self.kwarg_keys: set[str] | None = None  # keys a **kwargs parameter holds at the call site under analysis
        self.helper_tuples: Callable[[ast.Call], list[tuple[bool, list[Envelope] | None]] | None] | None = None
        self.max_states = max_states
        self.params = {a.arg for a in list(fi.node.args.posonlyargs) + list(fi.node.args.args) + list(fi.node.args.kwonlyargs)}  # type: ignore[attr-defined]
        self.assigned_once_or_never = self._never_reassigned()
        self.expr_table: dict[str, ast.AST] = {}
        self.relevant = self._relevant_vars()
        self.in_states: dict[int, set[State]] = {}
        self.events: list[tuple[str, Node, dict, Any]] = []  # (kind, node, state, payload)
        self._spread_keys_cache: dict[str, set[str] | None] = {}

    # ---------------------------------------------------------------- utils
    def _never_reassigned(self) -> set[str]:
        counts: dict[str, int] = {}
        for n in walk_no_nested(self.fi.node):
            if isinstance(n, ast.Name) and isinstance(n.ctx, ast.Store):
                counts[n.id] = counts.get(n.id, 0) + 1
        return {p for p in self.params if counts.get(p, 0) == 0} | {k for k, v in counts.items() if v == 1}

    def _relevant_vars(self) -> set[str]:
        """locals whose facts matter for the envelope typestate: schema lookups, validators, validator
        results, status strings, response dicts, and everything computed from them (forward closure)"""
        rel: set[str] = set()
        binds: list[tuple[list[str], ast.AST]] = []
        for n in walk_no_nested(self.fi.node):
            if isinstance(n, ast.Assign):
                for t in n.targets:
                    binds.append((list(_store_names(t)) if not isinstance(t, ast.Subscript) else [], n.value))
            elif isinstance(n, ast.AnnAssign) and n.value is not None and isinstance(n.target, ast.Name):
                binds.append(([n.target.id], n.value))
        for names, v in binds:
            seed = False
            for v_ in ([v.body, v.orelse] if isinstance(v, ast.IfExp) else [v]):
                if isinstance(v_, ast.Call):
                    last = ast.unparse(v_.func).split(".")[-1]
                    if last in LOOKUPS or last in ("Validator", "validate") or "envelope" in last or "error_response" in last:
                        seed = True
            if isinstance(v, ast.Constant) and v.value in STATUSES:
                seed = True
            if isinstance(v, ast.Dict) and any(isinstance(k, ast.Constant) and k.value == STATUS_KEY for k in v.keys):
                seed = True
            if seed:
                rel.update(names)
        # returned names are response dicts
        for n in walk_no_nested(self.fi.node):
            if isinstance(n, ast.Return) and isinstance(n.value, ast.Name):
                rel.add(n.value.id)
        changed = True
        while changed:
            changed = False
            for names, v in binds:
                if isinstance(v, ast.Call) and ast.unparse(v.func).split(".")[-1] not in ("Validator", "validate", "bool", "list") and self._map_helper_source(v) is None:
                    continue  # results of other calls are unknown anyway
                if {x.id for x in ast.walk(v) if isinstance(x, ast.Name)} & rel:
                    for nm in names:
                        if nm not in rel:
                            rel.add(nm)
                            changed = True
        return rel

    @staticmethod
    def freeze(st: dict) -> State:
        return tuple(sorted(st.items(), key=lambda kv: kv[0]))

    def run(self) -> None:
        cfg = self.cfg
        init: dict = {}
        self.in_states = {cfg.entry: {self.freeze(init)}}
        work = [cfg.entry]
        seen_pairs: set[tuple[int, State]] = set()
        total = 0
        while work:
            n = work.pop()
            for fs in list(self.in_states.get(n, ())):
                if (n, fs) in seen_pairs:
                    continue
                seen_pairs.add((n, fs))
                total += 1
                if total > self.max_states * 50:
                    raise AnalysisError(f"{self.fi.fqn}: abstract interpretation did not converge ({total} state visits)")
                st = dict(fs)
                node = cfg.nodes[n]
                outs = self.transfer(node, st)
                for (succ, lab) in cfg.succ[n]:
                    for lab2, st2 in outs:
                        if lab2 is not None and lab2 != lab:
                            continue
                        if lab == "x":
                            st_x = dict(fs)  # exception: effects of the statement did not (reliably) happen
                            f2 = self.freeze(st_x)
                        else:
                            f2 = self.freeze(st2)
                        s = self.in_states.setdefault(succ, set())
                        if f2 not in s:
                            if len(s) > self.max_states:
                                raise AnalysisError(f"{self.fi.fqn}: more than {self.max_states} abstract states at one node")
                            s.add(f2)
                            work.append(succ)

    # ------------------------------------------------------------- transfer
    def transfer(self, node: Node, st: dict) -> list[tuple[str | None, dict]]:
        a = node.ast
        if node.kind in ("entry", "exit", "raise", "finally"):
            return [(None, st)]
        if node.kind == "handler":
            if isinstance(a, ast.ExceptHandler) and a.name:
                self.kill(st, a.name)
            return [(None, st)]
        if node.kind == "test":
            outs = []
            t = self.truth(a, st)  # type: ignore[arg-type]
            if t != "F":
                s1 = dict(st)
                self.refine(a, True, s1)  # type: ignore[arg-type]
                outs.append(("t", s1))
            if t != "T":
                s2 = dict(st)
                self.refine(a, False, s2)  # type: ignore[arg-type]
                outs.append(("f", s2))
            # exception edge keeps the incoming state
            outs.append(("x", st))
            return outs
        if node.kind == "iter":
            owner = node.owner
            s_loop = dict(st)
            for nm in _store_names(owner.target):  # type: ignore[union-attr]
                self.kill(s_loop, nm)
            outs = [("loop", s_loop), ("done", dict(st)), ("x", st)]
            # a loop over a non-empty constant display runs its body at least once before it is done
            if isinstance(owner.iter, (ast.Tuple, ast.List)) and owner.iter.elts and not any(isinstance(e, ast.Starred) for e in owner.iter.elts):  # type: ignore[union-attr]
                flag = f"lp:{node.id}"
                if flag not in st:
                    s_loop[flag] = "1"
                    return [("loop", s_loop), ("x", st)]
                done = dict(st)
                done.pop(flag, None)
                return [("loop", s_loop), ("done", done), ("x", st)]
            # a loop over a known-empty list is never entered
            if isinstance(owner.iter, ast.Name) and st.get(f"tr:{owner.iter.id}") == "F":  # type: ignore[union-attr]
                outs = [("done", dict(st)), ("x", st)]
            return outs
        if node.kind == "with":
            s = dict(st)
            for item in a.items:  # type: ignore[union-attr]
                if item.optional_vars is not None:
                    for nm in _store_names(item.optional_vars):
                        self.kill(s, nm)
            return [(None, s)]
        # simple statements
        # `x = A if c else B`: the two cases are two paths (c refined on each), exactly as the if-statement it abbreviates
        if isinstance(a, (ast.Assign, ast.AnnAssign)) and isinstance(a.value, ast.IfExp) and (len(a.targets) == 1 if isinstance(a, ast.Assign) else True):
            tgt = a.targets[0] if isinstance(a, ast.Assign) else a.target
            if isinstance(tgt, ast.Name):
                outs2: list[tuple[str | None, dict]] = []
                t = self.truth(a.value.test, st)
                for val, branch in ((True, a.value.body), (False, a.value.orelse)):
                    if t == ("F" if val else "T"):
                        continue
                    s_ = dict(st)
                    self.refine(a.value.test, val, s_)
                    self.assign(tgt, branch, s_, node)
                    outs2.append((None, s_))
                if outs2:
                    return outs2
        s = dict(st)
        if isinstance(a, ast.Assign):
            for t in a.targets:
                self.assign(t, a.value, s, node)
        elif isinstance(a, ast.AnnAssign):
            if a.value is not None:
                self.assign(a.target, a.value, s, node)
        elif isinstance(a, ast.AugAssign):
            for nm in _store_names(a.target):
                self.kill(s, nm)
            if isinstance(a.target, ast.Name) and f"d:{a.target.id}" in st:
                s[f"d:{a.target.id}"] = replace(st[f"d:{a.target.id}"], status=TOP)
        elif isinstance(a, ast.Delete):
            for t in a.targets:
                if isinstance(t, ast.Subscript) and isinstance(t.value, ast.Name) and f"d:{t.value.id}" in s and isinstance(t.slice, ast.Constant):
                    self.dict_del(s, t.value.id, t.slice.value)
                else:
                    for nm in _store_names(t):
                        self.kill(s, nm)
        elif isinstance(a, ast.Expr) and isinstance(a.value, ast.Call):
            self.call_effect(a.value, s, node)
        elif isinstance(a, ast.Return):
            self.events.append(("return", node, dict(st), a.value))
        elif isinstance(a, (ast.FunctionDef, ast.AsyncFunctionDef, ast.ClassDef, ast.Import, ast.ImportFrom, ast.Pass, ast.Assert, ast.Raise, ast.Break, ast.Continue, ast.Global, ast.Nonlocal, ast.Expr)):
            pass
        return [(None, s)]

    def kill(self, st: dict, var: str) -> None:
        for pre in ("nn:", "tr:", "lk:", "vs:", "st:", "ex:", "d:", "mn:", "vsof:"):
            st.pop(pre + var, None)
        for k_ in [k_ for k_, v_ in st.items() if k_.startswith("vsof:") and v_ == var]:
            st.pop(k_)
        if "ev:test" in st:
            import re as _re

            if _re.search(rf"\b{_re.escape(var)}\b", st["ev:test"]):
                st.pop("ev:test")  # the tested expression mentions a name that is being rebound
        # expressions that mention var are stale
        for k in [k for k in st if k.startswith("ex:")]:
            e = self.expr_table.get(st[k])
            if e is not None and any(isinstance(x, ast.Name) and x.id == var for x in ast.walk(e)):
                st.pop(k)
        if st.get("errvar") == var:
            st.pop("errvar")

    def _loop_const_values(self, k: ast.AST) -> set[str] | None:
        """k is the (element of the) target of an enclosing `for` over a display of string constants / of equal-length tuples of
        string constants, and is not written otherwise: the strings it can be"""
        if not isinstance(k, ast.Name):
            return None
        cur = getattr(k, "_parent", None)
        while cur is not None and not isinstance(cur, (ast.FunctionDef, ast.AsyncFunctionDef, ast.Lambda)):
            if isinstance(cur, (ast.For, ast.AsyncFor)):
                tg = cur.target
                pos = None
                if isinstance(tg, ast.Name) and tg.id == k.id:
                    pos = -1
                elif isinstance(tg, (ast.Tuple, ast.List)):
                    for i, e in enumerate(tg.elts):
                        if isinstance(e, ast.Name) and e.id == k.id:
                            pos = i
                if pos is not None:
                    if any(isinstance(x, ast.Name) and x.id == k.id and isinstance(x.ctx, ast.Store) and x is not tg and not any(x is y for y in ast.walk(tg)) for b in cur.body for x in ast.walk(b)):
                        return None
                    it = cur.iter
                    if not isinstance(it, (ast.Tuple, ast.List)) or not it.elts:
                        return None
                    out: set[str] = set()
                    for row in it.elts:
                        c = row if pos == -1 else (row.elts[pos] if isinstance(row, (ast.Tuple, ast.List)) and pos < len(row.elts) else None)
                        if not (isinstance(c, ast.Constant) and isinstance(c.value, str)):
                            return None
                        out.add(c.value)
                    return out
            cur = getattr(cur, "_parent", None)
        return None

    # ----------------------------------------------------------- assignment
    def assign(self, target: ast.AST, value: ast.AST, st: dict, node: Node) -> None:
        if isinstance(target, ast.Subscript) and isinstance(target.value, ast.Name) and f"d:{target.value.id}" in st:
            key = target.slice.value if isinstance(target.slice, ast.Constant) else None
            if key is None:
                # `d[k] = ...` with k the variable of a loop over a constant table: a store under each of its values
                ks = self._loop_const_values(target.slice)
                if ks is not None:
                    for k_ in sorted(ks & {STATUS_KEY, "valid", "validation_errors", "schema_name", "schema_version", "validation_error_count"}):
                        self.dict_store(st, target.value.id, k_, value if k_ == "validation_error_count" else ast.Name(id="<unknown>", ctx=ast.Load()), node)
                    return
            self.dict_store(st, target.value.id, key, value, node)
            return
        if isinstance(target, (ast.Tuple, ast.List)):
            if isinstance(value, (ast.Tuple, ast.List)) and len(value.elts) == len(target.elts):
                for t, v in zip(target.elts, value.elts):
                    self.assign(t, v, st, node)
            else:
                for el in target.elts:
                    # `d["k"], d["j"] = f(..)`: stores of unknown values under constant keys, not a rebinding of d
                    if isinstance(el, ast.Subscript) and isinstance(el.value, ast.Name) and f"d:{el.value.id}" in st:
                        key = el.slice.value if isinstance(el.slice, ast.Constant) else None
                        self.dict_store(st, el.value.id, key, ast.Name(id="<unknown>", ctx=ast.Load()), node)
                        continue
                    for nm in _store_names(el):
                        self.kill(st, nm)
                # (content, error) = self._helper(...): a position that is always None-or-one-envelope binds that envelope,
                # flagged maybe-None until a test excludes None
                summ = self.helper_tuples(value) if (self.helper_tuples is not None and isinstance(value, ast.Call)) else None
                if summ is not None and len(summ) == len(target.elts):
                    for t, (maybe_none, envs) in zip(target.elts, summ):
                        if isinstance(t, ast.Name) and t.id in self.relevant and envs is not None and len(envs) == 1:
                            st[f"d:{t.id}"] = envs[0]
                            if maybe_none:
                                st[f"mn:{t.id}"] = True
                            else:
                                st[f"nn:{t.id}"] = "NN"
            return
        if not isinstance(target, ast.Name):
            return
        var = target.id
        if var not in self.relevant:
            return
        prev_lk = st.get(f"lk:{var}")
        prev_nn = st.get(f"nn:{var}")
        prev_tr = st.get(f"tr:{var}")
        was_errvar = st.get("errvar") == var
        self.kill(st, var)
        v = value
        # x = [e for e in x if cond] : a filtered copy of itself (empty stays empty, otherwise unknown); still "the validator's error list"
        if isinstance(v, (ast.ListComp,)) and len(v.generators) == 1 and isinstance(v.generators[0].iter, ast.Name) and v.generators[0].iter.id == var and isinstance(v.elt, ast.Name) and isinstance(v.generators[0].target, ast.Name) and v.elt.id == v.generators[0].target.id:
            st[f"nn:{var}"] = "NN"
            if prev_tr == "F" or (prev_tr == "T" and not v.generators[0].ifs):
                st[f"tr:{var}"] = prev_tr
            if was_errvar:
                st["errvar"] = var
            return
        # y = [e for e in x if cond] with x the validator's error list: y is the (filtered) error list that decides from here on
        if isinstance(v, (ast.ListComp,)) and len(v.generators) == 1 and isinstance(v.generators[0].iter, ast.Name) and st.get("errvar") == v.generators[0].iter.id and isinstance(v.elt, ast.Name) and isinstance(v.generators[0].target, ast.Name) and v.elt.id == v.generators[0].target.id and any("severity" in ast.unparse(i) and "!=" in ast.unparse(i) for i in v.generators[0].ifs):
            src = v.generators[0].iter.id
            st[f"nn:{var}"] = "NN"
            if st.get(f"tr:{src}") == "F":
                st[f"tr:{var}"] = "F"
            st["errvar"] = var
            return
        if isinstance(v, ast.Constant):
            if v.value is None:
                st[f"nn:{var}"] = "N"
                st[f"tr:{var}"] = "F"
            else:
                st[f"nn:{var}"] = "NN"
                st[f"tr:{var}"] = "T" if v.value else "F"
                if isinstance(v.value, str):
                    st[f"st:{var}"] = v.value
                    self.events.append(("const-store", node, dict(st), (var, v.value)))
            return
        if isinstance(v, (ast.List, ast.Tuple, ast.Set)):
            st[f"nn:{var}"] = "NN"
            st[f"tr:{var}"] = "T" if v.elts else "F"
            return
        if isinstance(v, ast.Dict):
            st[f"nn:{var}"] = "NN"
            st[f"tr:{var}"] = "T" if v.keys else "F"
            env = self.envelope_of_dict(v, st)
            if env is not None:
                st[f"d:{var}"] = env
                if env.status not in (ABSENT,):
                    self.events.append(("status-store", node, dict(st), (var, env.status)))
            return
        if isinstance(v, ast.Name):
            for pre in ("nn:", "tr:", "lk:", "vs:", "st:", "d:", "mn:"):
                if pre + v.id in st:
                    st[pre + var] = st[pre + v.id]
            return
        if isinstance(v, (ast.ListComp, ast.GeneratorExp)) and len(v.generators) == 1 and not v.generators[0].ifs and isinstance(v.generators[0].iter, ast.Name):
            src = v.generators[0].iter.id
            st[f"nn:{var}"] = "NN"
            if f"tr:{src}" in st:
                st[f"tr:{var}"] = st[f"tr:{src}"]
            return
        if isinstance(v, ast.Call):
            ftxt = ast.unparse(v.func)
            last = ftxt.split(".")[-1]
            if last in LOOKUPS:
                text = ast.unparse(v)
                st[f"lk:{var}"] = text
                arg_names = {x.id for x in ast.walk(v) if isinstance(x, ast.Name)} - {ftxt.split(".")[0]}
                if prev_lk == text and prev_nn is not None and arg_names <= self.assigned_once_or_never:
                    st[f"nn:{var}"] = prev_nn  # pure lookup repeated with the same arguments
                    if prev_nn == "N":
                        st[f"tr:{var}"] = "F"
                return
            if last == "Validator":
                arg = None
                if v.args:
                    arg = v.args[0]
                for k in v.keywords:
                    if k.arg == "schema":
                        arg = k.value
                st[f"nn:{var}"] = "NN"
                st[f"vs:{var}"] = self.nn_of(arg, st) if arg is not None else "N"
                return
            chained_vs = None
            if last == "validate" and isinstance(v.func, ast.Attribute) and isinstance(v.func.value, ast.Call) and ast.unparse(v.func.value.func).split(".")[-1] == "Validator":
                # Validator(schema=X).validate(..): the validator is not bound to a name
                vc = v.func.value
                varg = vc.args[0] if vc.args else next((k.value for k in vc.keywords if k.arg == "schema"), None)
                chained_vs = self.nn_of(varg, st) if varg is not None else "N"
            if last == "validate" and isinstance(v.func, ast.Attribute) and ((isinstance(v.func.value, ast.Name) and f"vs:{v.func.value.id}" in st) or chained_vs is not None):
                st["errvar"] = var
                # with which strictness was this pass made? (the first pass on a path is the one that judges the document)
                sk = next((ast.unparse(k.value) for k in v.keywords if k.arg == "strict"), ast.unparse(v.args[1]) if len(v.args) > 1 else "False")
                st["sv:cur"] = sk
                st.setdefault("sv:first", sk)
                st[f"nn:{var}"] = "NN"
                ss = None
                for k in v.keywords:
                    if k.arg == "section_schemas":
                        ss = k.value
                if len(v.args) >= 3:
                    ss = v.args[2]
                ss_none = ss is None or self.nn_of(ss, st) == "N"
                cur_vs = chained_vs if chained_vs is not None else st[f"vs:{v.func.value.id}"]
                # the errors of a schema-less pass are empty: when the schema is a name whose None-ness is not known yet, remember
                # the dependence so that a later test of that name decides it (the name is not rebound in between: kill())
                st.pop(f"vsof:{var}", None)
                if cur_vs == "?" and ss_none and chained_vs is not None and isinstance(varg, ast.Name):
                    st[f"vsof:{var}"] = varg.id
                if cur_vs == "N" and ss_none:
                    st[f"tr:{var}"] = "F"  # schema-less validation yields no errors (rule R10.7 checks the validator)
                return
            src = self._map_helper_source(v)
            if src is not None:
                st[f"nn:{var}"] = "NN"
                if f"tr:{src}" in st:
                    st[f"tr:{var}"] = st[f"tr:{src}"]
                return
            env = self.helper_envelopes(v)
            if env is not None and len(env) == 1:
                st[f"d:{var}"] = env[0]
                st[f"nn:{var}"] = "NN"
            return
        if isinstance(v, (ast.BoolOp, ast.Compare, ast.UnaryOp)):
            text = ast.unparse(v)
            self.expr_table[text] = v
            st[f"ex:{var}"] = text
            t = self.truth(v, st)
            if t in ("T", "F"):
                st[f"tr:{var}"] = t
            return
        # anything else: unknown

    def nn_of(self, e: ast.AST | None, st: dict) -> str:
        if e is None:
            return "?"
        if isinstance(e, ast.Constant):
            return "N" if e.value is None else "NN"
        if isinstance(e, ast.Name):
            return st.get(f"nn:{e.id}", "?")
        if isinstance(e, ast.IfExp):
            t = self.truth(e.test, st)
            if t == "T":
                return self.nn_of(e.body, st)
            if t == "F":
                return self.nn_of(e.orelse, st)
            a, b = self.nn_of(e.body, st), self.nn_of(e.orelse, st)
            return a if a == b else "?"
        return "?"

    # ----------------------------------------------------------------- dicts
    def envelope_of_dict(self, d: ast.Dict, st: dict) -> Envelope | None:
        env = Envelope()
        any_key = False
        for k, v in zip(d.keys, d.values):
            if k is None:
                keys = self.spread_keys(v)
                if keys is None or keys & {STATUS_KEY, "valid", "validation_errors", "schema_name", "schema_version"}:
                    env = replace(env, status=TOP if (keys is None or STATUS_KEY in keys) else env.status)
                continue
            if not isinstance(k, ast.Constant):
                continue
            any_key = True
            env = self._store_key(env, k.value, v, st, None)
        return env if any_key or not d.keys else env

    def spread_keys(self, e: ast.AST) -> set[str] | None:
        """possible top-level keys of a `**name` spread: dict-literal keys plus constant subscript stores"""
        if not isinstance(e, ast.Name):
            return None
        kwarg = getattr(self.fi.node.args, "kwarg", None)  # type: ignore[attr-defined]
        if kwarg is not None and e.id == kwarg.arg:
            # **kwargs of the function itself: the keys the analysed call site passes (None = unknown)
            rebound = any(isinstance(n, ast.Name) and n.id == e.id and isinstance(n.ctx, ast.Store) for n in walk_no_nested(self.fi.node)) or any(isinstance(n, ast.Subscript) and isinstance(n.ctx, ast.Store) and isinstance(n.value, ast.Name) and n.value.id == e.id for n in walk_no_nested(self.fi.node))
            return None if rebound or self.kwarg_keys is None else set(self.kwarg_keys)
        if e.id in self.params:
            return None
        if e.id in self._spread_keys_cache:
            return self._spread_keys_cache[e.id]
        keys: set[str] | None = set()
        for n in walk_no_nested(self.fi.node):
            if isinstance(n, (ast.Assign, ast.AnnAssign)):
                targets = n.targets if isinstance(n, ast.Assign) else [n.target]
                for t in targets:
                    if isinstance(t, ast.Name) and t.id == e.id:
                        val = n.value
                        if isinstance(val, ast.Dict) and all(isinstance(k, ast.Constant) for k in val.keys):
                            keys |= {k.value for k in val.keys}  # type: ignore[union-attr]
                        elif val is not None:
                            keys = None
                    if isinstance(t, ast.Subscript) and isinstance(t.value, ast.Name) and t.value.id == e.id:
                        if isinstance(t.slice, ast.Constant):
                            if keys is not None:
                                keys.add(t.slice.value)
                        else:
                            keys = None
            if keys is None:
                break
            if isinstance(n, ast.Call) and isinstance(n.func, ast.Attribute) and isinstance(n.func.value, ast.Name) and n.func.value.id == e.id and n.func.attr in ("update", "setdefault"):
                keys = None
                break
        self._spread_keys_cache[e.id] = keys
        return keys

    def _list_abs(self, v: ast.AST, st: dict, var: str | None) -> str:
        if isinstance(v, (ast.List, ast.Tuple)):
            return "N" if v.elts else "E"
        if isinstance(v, ast.Name):
            t = st.get(f"tr:{v.id}")
            return {"T": "N", "F": "E"}.get(t, TOP)
        if isinstance(v, (ast.ListComp, ast.GeneratorExp)) and len(v.generators) == 1 and not v.generators[0].ifs and isinstance(v.generators[0].iter, ast.Name):
            t = st.get(f"tr:{v.generators[0].iter.id}")
            return {"T": "N", "F": "E"}.get(t, TOP)
        if isinstance(v, ast.Call) and ast.unparse(v.func) == "list" and len(v.args) == 1:
            return self._list_abs(v.args[0], st, var)
        if isinstance(v, ast.Call):
            src = self._map_helper_source(v)
            if src is not None:
                return {"T": "N", "F": "E"}.get(st.get(f"tr:{src}"), TOP)
        return TOP

    def _store_key(self, env: Envelope, key: Any, v: ast.AST, st: dict, var: str | None) -> Envelope:
        if key == STATUS_KEY:
            if isinstance(v, ast.Constant) and isinstance(v.value, str):
                return replace(env, status=v.value)
            if isinstance(v, ast.Name) and f"st:{v.id}" in st:
                return replace(env, status=st[f"st:{v.id}"])
            return replace(env, status=TOP)
        if key == "valid":
            if isinstance(v, ast.Constant) and isinstance(v.value, bool):
                return replace(env, valid="T" if v.value else "F")
            if isinstance(v, ast.Compare) and len(v.ops) == 1 and isinstance(v.ops[0], ast.Eq) and isinstance(v.comparators[0], ast.Constant) and v.comparators[0].value == "VALIDATED" and env.status in STATUSES:
                l = v.left
                if isinstance(l, ast.Subscript) and isinstance(l.slice, ast.Constant) and l.slice.value == STATUS_KEY:
                    return replace(env, valid="T" if env.status == "VALIDATED" else "F")
            return replace(env, valid=TOP)
        if key == "validation_errors":
            return replace(env, verrs=self._list_abs(v, st, var))  # a count taken earlier stays in the envelope
        if key == "schema_name":
            return replace(env, name=True)
        if key == "schema_version":
            return replace(env, version=True)
        if key == "validation_error_count":
            if env.verrs == "N" and isinstance(v, ast.Call) and ast.unparse(v.func) == "len":
                return replace(env, counted=True)
            return env
        return env

    def dict_store(self, st: dict, var: str, key: Any, v: ast.AST, node: Node) -> None:
        env: Envelope = st[f"d:{var}"]
        if key is None:
            st[f"d:{var}"] = replace(env, status=TOP)
            return
        new = self._store_key(env, key, v, st, var)
        st[f"d:{var}"] = new
        if key == STATUS_KEY:
            self.events.append(("status-store", node, dict(st), (var, new.status)))

    def dict_del(self, st: dict, var: str, key: Any) -> None:
        env: Envelope = st[f"d:{var}"]
        if key == STATUS_KEY:
            st[f"d:{var}"] = replace(env, status=ABSENT)
        elif key == "valid":
            st[f"d:{var}"] = replace(env, valid=ABSENT)
        elif key == "validation_errors":
            st[f"d:{var}"] = replace(env, verrs=ABSENT)
        elif key == "schema_name":
            st[f"d:{var}"] = replace(env, name=False)
        elif key == "schema_version":
            st[f"d:{var}"] = replace(env, version=False)

    def call_effect(self, c: ast.Call, st: dict, node: Node) -> None:
        f = c.func
        if any(isinstance(a, ast.Name) and f"d:{a.id}" in st for a in c.args):
            self._helper_dict_effect(c, st, node)
        if isinstance(f, ast.Attribute) and isinstance(f.value, ast.Name) and f"d:{f.value.id}" in st:
            var = f.value.id
            if f.attr == "pop" and c.args and isinstance(c.args[0], ast.Constant):
                self.dict_del(st, var, c.args[0].value)
            elif f.attr == "update":
                if c.args and isinstance(c.args[0], ast.Dict) and all(isinstance(k, ast.Constant) for k in c.args[0].keys):
                    for k, v in zip(c.args[0].keys, c.args[0].values):
                        self.dict_store(st, var, k.value, v, node)  # type: ignore[union-attr]
                elif c.keywords and not c.args:
                    for kw in c.keywords:
                        if kw.arg is not None:
                            self.dict_store(st, var, kw.arg, kw.value, node)
                else:
                    st[f"d:{var}"] = replace(st[f"d:{var}"], status=TOP, valid=TOP, verrs=TOP)
            elif f.attr == "clear":
                st[f"d:{var}"] = Envelope()
            elif f.attr == "setdefault":
                pass
        # list mutation: x.append / x.extend make x non-empty (append) or unknown (extend)
        if isinstance(f, ast.Attribute) and isinstance(f.value, ast.Name):
            var = f.value.id
            if var not in self.relevant:
                return
            if f.attr in ("append", "insert", "add"):
                st[f"tr:{var}"] = "T"
            elif f.attr in ("extend", "update", "clear", "pop", "remove", "discard"):
                st.pop(f"tr:{var}", None)

    # ---------------------------------------------------------------- truth
    def truth(self, e: ast.AST, st: dict) -> str:
        if isinstance(e, ast.Constant):
            return "T" if e.value else "F"
        if isinstance(e, ast.Name):
            t = st.get(f"tr:{e.id}")
            if t:
                return t
            if st.get(f"nn:{e.id}") == "N":
                return "F"
            return "?"
        if isinstance(e, ast.UnaryOp) and isinstance(e.op, ast.Not):
            t = self.truth(e.operand, st)
            return {"T": "F", "F": "T"}.get(t, "?")
        if isinstance(e, ast.BoolOp):
            vals = [self.truth(v, st) for v in e.values]
            if isinstance(e.op, ast.And):
                if "F" in vals:
                    return "F"
                return "T" if all(v == "T" for v in vals) else "?"
            if "T" in vals:
                return "T"
            return "F" if all(v == "F" for v in vals) else "?"
        if isinstance(e, ast.Compare) and len(e.ops) == 1:
            op, l, r = e.ops[0], e.left, e.comparators[0]
            if isinstance(op, (ast.Is, ast.IsNot)) and isinstance(r, ast.Constant) and r.value is None:
                n = self.nn_of(l, st)
                if n == "?":
                    return "?"
                isnone = n == "N"
                return "T" if isnone == isinstance(op, ast.Is) else "F"
            if isinstance(op, (ast.Eq, ast.NotEq)) and isinstance(l, ast.Name) and isinstance(r, ast.Constant) and f"st:{l.id}" in st:
                eq = st[f"st:{l.id}"] == r.value
                return "T" if eq == isinstance(op, ast.Eq) else "F"
        return "?"

    def refine(self, e: ast.AST, val: bool, st: dict) -> None:
        if val and isinstance(e, (ast.BoolOp, ast.Compare)) and self.is_evidence_expr(e, st):
            # `if <lookup> is not None or (...)` tested directly (not through a named flag): its truth is the evidence
            st["ev:test"] = ast.unparse(e)[:120]
        if isinstance(e, ast.Name):
            if e.id not in self.relevant:
                return
            st[f"tr:{e.id}"] = "T" if val else "F"
            if val:
                st[f"nn:{e.id}"] = "NN"
            # a name holding a boolean expression refines that expression too
            text = st.get(f"ex:{e.id}")
            if text and text in self.expr_table:
                self.refine(self.expr_table[text], val, st)
            return
        if isinstance(e, ast.UnaryOp) and isinstance(e.op, ast.Not):
            self.refine(e.operand, not val, st)
            return
        if isinstance(e, ast.BoolOp):
            if isinstance(e.op, ast.And) and val:
                for v in e.values:
                    self.refine(v, True, st)
            elif isinstance(e.op, ast.Or) and not val:
                for v in e.values:
                    self.refine(v, False, st)
            elif len(e.values) == 1:
                self.refine(e.values[0], val, st)
            else:
                # (a and b) false with a known true => b false ; (a or b) true with a known false => b true
                unknown = [v for v in e.values if self.truth(v, st) == "?"]
                if len(unknown) == 1:
                    others = [self.truth(v, st) for v in e.values if v is not unknown[0]]
                    if isinstance(e.op, ast.And) and not val and all(o == "T" for o in others):
                        self.refine(unknown[0], False, st)
                    if isinstance(e.op, ast.Or) and val and all(o == "F" for o in others):
                        self.refine(unknown[0], True, st)
            return
        if isinstance(e, ast.Compare) and len(e.ops) == 1:
            op, l, r = e.ops[0], e.left, e.comparators[0]
            if isinstance(op, (ast.Is, ast.IsNot)) and isinstance(r, ast.Constant) and r.value is None and isinstance(l, ast.Name):
                if l.id not in self.relevant:
                    return
                isnone = isinstance(op, ast.Is) == val
                st[f"nn:{l.id}"] = "N" if isnone else "NN"
                if isnone:
                    st[f"tr:{l.id}"] = "F"
                    for k_ in [k_ for k_, v_ in st.items() if k_.startswith("vsof:") and v_ == l.id]:
                        st[f"tr:{k_[5:]}"] = "F"  # that pass was made without a schema: it produced no errors
                return
            if isinstance(op, (ast.In, ast.NotIn)) and isinstance(r, ast.Name):
                r = self._const_collection(r.id) or r
            if isinstance(op, (ast.In, ast.NotIn)) and isinstance(r, (ast.Tuple, ast.List, ast.Set)):
                consts = {c.value for c in r.elts if isinstance(c, ast.Constant)}
                if consts and consts <= {"LENIENT", "ULTRA"} and "LENIENT" in consts:
                    inn = isinstance(op, ast.In) == val
                    st["lenient"] = "T" if inn else "F"
                return
            if isinstance(op, (ast.Eq, ast.NotEq)) and isinstance(l, ast.Name) and isinstance(r, ast.Constant) and isinstance(r.value, str):
                if l.id not in self.relevant:
                    return
                if isinstance(op, ast.Eq) == val:
                    st[f"st:{l.id}"] = r.value
                return

    def _const_collection(self, name: str) -> ast.AST | None:
        """a module-level constant that is a literal collection (possibly wrapped in frozenset()/set()/tuple()) and that the
        function does not rebind"""
        m = self.fi.module
        if name in self.params or not m.has_const(name) or any(isinstance(n, ast.Name) and n.id == name and isinstance(n.ctx, ast.Store) for n in walk_no_nested(self.fi.node)):
            return None
        try:
            v = m.const_node(name)
        except Exception:
            return None
        if isinstance(v, ast.Call) and isinstance(v.func, ast.Name) and v.func.id in ("frozenset", "set", "tuple") and len(v.args) == 1 and not v.keywords:
            v = v.args[0]
        return v if isinstance(v, (ast.Tuple, ast.List, ast.Set)) else None

    def _map_helper_source(self, v: ast.Call) -> str | None:
        """`f(xs)` where f (same module) is `return [<expr> for x in <param>]` without filter: one result per element of xs;
        returns the caller's name passed for that parameter"""
        h = self._local_helper(v)
        if h is None or v.keywords:
            return None
        body = [b for b in h.node.body if not (isinstance(b, ast.Expr) and isinstance(b.value, ast.Constant))]  # type: ignore[attr-defined]
        if len(body) != 1 or not isinstance(body[0], ast.Return) or not isinstance(body[0].value, ast.ListComp):
            return None
        lc = body[0].value
        if len(lc.generators) != 1 or lc.generators[0].ifs or not isinstance(lc.generators[0].iter, ast.Name):
            return None
        params = [a.arg for a in h.node.args.args if a.arg not in ("self", "cls")]  # type: ignore[attr-defined]
        if lc.generators[0].iter.id not in params or len(v.args) != len(params):
            return None
        a = v.args[params.index(lc.generators[0].iter.id)]
        return a.id if isinstance(a, ast.Name) else None

    def _local_helper(self, c: ast.Call) -> FuncInfo | None:
        m = self.fi.module
        f = c.func
        if isinstance(f, ast.Name):
            cands = [x for x in m.functions.values() if x.name == f.id and x.cls is None]
        elif isinstance(f, ast.Attribute) and isinstance(f.value, ast.Name) and f.value.id in ("self", "cls") and self.fi.cls:
            cands = [x for x in m.functions.values() if x.name == f.attr and x.cls == self.fi.cls]
        else:
            return None
        return cands[0] if len(cands) == 1 and cands[0] is not self.fi else None

    def _helper_dict_effect(self, c: ast.Call, st: dict, node: Node) -> None:
        """an envelope dict handed to a helper of the same module: stores the helper makes at the top level of its body are
        applied; anything less clear (conditional stores, the dict passed on, method calls on it) makes the fields unknown"""
        h = self._local_helper(c)
        if h is None:
            return
        params = [a.arg for a in h.node.args.args if a.arg not in ("self", "cls")]  # type: ignore[attr-defined]
        for i, a in enumerate(c.args):
            if not (isinstance(a, ast.Name) and f"d:{a.id}" in st and i < len(params)):
                continue
            p = params[i]
            top_level = {id(b) for b in h.node.body}  # type: ignore[attr-defined]
            for n in walk_no_nested(h.node):
                if isinstance(n, ast.Assign):
                    for t in n.targets:
                        if isinstance(t, ast.Subscript) and isinstance(t.value, ast.Name) and t.value.id == p:
                            key = t.slice.value if isinstance(t.slice, ast.Constant) else None
                            env: Envelope = st[f"d:{a.id}"]
                            definite = id(n) in top_level
                            if key is None:
                                st[f"d:{a.id}"] = replace(env, status=TOP)
                            elif key == "validation_error_count":
                                if definite:
                                    st[f"d:{a.id}"] = self._store_key(env, key, n.value, st, a.id)
                            elif key == STATUS_KEY:
                                new = replace(env, status=n.value.value if definite and isinstance(n.value, ast.Constant) and isinstance(n.value.value, str) else TOP)
                                st[f"d:{a.id}"] = new
                                self.events.append(("status-store", node, dict(st), (a.id, new.status)))
                            elif key == "valid":
                                st[f"d:{a.id}"] = replace(env, valid=("T" if n.value.value else "F") if definite and isinstance(n.value, ast.Constant) and isinstance(n.value.value, bool) else TOP)
                            elif key == "validation_errors":
                                st[f"d:{a.id}"] = replace(env, verrs=TOP)
                elif isinstance(n, ast.Call):
                    passes_on = any(isinstance(x, ast.Name) and x.id == p for x in n.args) or any(isinstance(k.value, ast.Name) and k.value.id == p for k in n.keywords)
                    mutates = isinstance(n.func, ast.Attribute) and isinstance(n.func.value, ast.Name) and n.func.value.id == p and n.func.attr in ("update", "pop", "clear", "setdefault", "popitem")
                    if (passes_on and not (isinstance(n.func, ast.Name) and n.func.id in ("len", "bool", "isinstance", "str", "repr"))) or mutates:
                        st[f"d:{a.id}"] = replace(st[f"d:{a.id}"], status=TOP, valid=TOP, verrs=TOP)
                elif isinstance(n, ast.Delete):
                    for t in n.targets:
                        if isinstance(t, ast.Subscript) and isinstance(t.value, ast.Name) and t.value.id == p:
                            st[f"d:{a.id}"] = replace(st[f"d:{a.id}"], status=TOP, valid=TOP, verrs=TOP)

    # ------------------------------------------------------------- evidence
    def schema_evidence(self, st: dict) -> str | None:
        """a reason why 'the named schema was found' holds in this state, or None"""
        for k, v in st.items():
            if k.startswith("nn:") and v == "NN" and ("lk:" + k[3:]) in st:
                return f"{k[3:]} (= {st['lk:' + k[3:]]}) is not None"
        if "ev:test" in st:
            return f"`{st['ev:test']}` was tested true on this path"
        for k, v in st.items():
            if k.startswith("tr:") and v == "T" and ("ex:" + k[3:]) in st:
                e = self.expr_table.get(st["ex:" + k[3:]])
                if e is not None and self.is_evidence_expr(e, st):
                    return f"{k[3:]} (= {st['ex:' + k[3:]]}) is true"
        return None

    def is_evidence_expr(self, e: ast.AST, st: dict) -> bool:
        if isinstance(e, ast.Compare) and len(e.ops) == 1 and isinstance(e.ops[0], ast.IsNot) and isinstance(e.comparators[0], ast.Constant) and e.comparators[0].value is None and isinstance(e.left, ast.Name):
            return self.is_lookup_var(e.left.id)
        if isinstance(e, ast.BoolOp):
            if isinstance(e.op, ast.And):
                return any(self.is_evidence_expr(v, st) for v in e.values)
            return all(self.is_evidence_expr(v, st) for v in e.values)
        if isinstance(e, ast.Call) and ast.unparse(e.func) == "bool" and len(e.args) == 1:
            return self.is_evidence_expr(e.args[0], st)
        return False

    def is_lookup_var(self, var: str, _depth: int = 0) -> bool:
        """every binding of var is a schema lookup call or the constant None"""
        ok = False
        for n in walk_no_nested(self.fi.node):
            tgt = None
            val = None
            if isinstance(n, ast.Assign) and len(n.targets) == 1 and isinstance(n.targets[0], ast.Name) and n.targets[0].id == var:
                tgt, val = var, n.value
            elif isinstance(n, ast.AnnAssign) and isinstance(n.target, ast.Name) and n.target.id == var:
                tgt, val = var, n.value
            if tgt is None or val is None:
                continue
            if isinstance(val, ast.Constant) and val.value is None:
                continue
            if isinstance(val, ast.Call) and ast.unparse(val.func).split(".")[-1] in LOOKUPS:
                ok = True
                continue
            if isinstance(val, ast.Name) and val.id != var and _depth < 4 and self.is_lookup_var(val.id, _depth + 1):
                ok = True  # a copy of a lookup result
                continue
            if isinstance(val, ast.IfExp) and all((isinstance(x, ast.Constant) and x.value is None) or (isinstance(x, ast.Call) and ast.unparse(x.func).split(".")[-1] in LOOKUPS) for x in (val.body, val.orelse)):
                ok = True
                continue
            return False
        return ok

    # --------------------------------------------------------------- returns
    def envelope_of_return(self, value: ast.AST | None, st: dict) -> list[Envelope] | None:
        if value is None:
            return None
        if isinstance(value, ast.Name):
            e = st.get(f"d:{value.id}")
            if st.get(f"mn:{value.id}") and st.get(f"nn:{value.id}") != "NN":
                return None  # may still be None here
            return [e] if e is not None else None
        if isinstance(value, ast.Dict):
            e = self.envelope_of_dict(value, st)
            return [e] if e is not None else None
        if isinstance(value, ast.Call):
            return self.helper_envelopes(value)
        if isinstance(value, ast.BinOp) and isinstance(value.op, ast.BitOr):
            # `A | B` on dicts: A's entries, then B's (B wins). Decided when B cannot hold an envelope key.
            left = self.envelope_of_return(value.left, st)
            if left is not None and isinstance(value.right, (ast.Name, ast.Dict)):
                if isinstance(value.right, ast.Dict):
                    keys: set[str] | None = {k.value for k in value.right.keys if isinstance(k, ast.Constant)} if all(isinstance(k, ast.Constant) for k in value.right.keys) else None
                else:
                    keys = self.spread_keys(value.right)
                if keys is not None and not (keys & {STATUS_KEY, "valid", "validation_errors", "schema_name", "schema_version", "validation_error_count"}):
                    return left
        return None


def _store_names(t: ast.AST) -> Iterable[str]:
    for n in ast.walk(t):
        if isinstance(n, ast.Name):
            yield n.id
