"""Facts about the document AST classes (read from core/ast_nodes.py) and AST-write effect detection."""
from __future__ import annotations

import ast
from typing import Iterator

from .source import FuncInfo, Project, walk_no_nested

MUTATORS = {"append", "extend", "insert", "remove", "pop", "clear", "update", "setdefault", "add", "discard", "popitem", "sort", "reverse"}


class AstModel:
    def __init__(self, project: Project):
        m = project.mod("core.ast_nodes")
        self.module = m
        self.classes: dict[str, list[str]] = {}  # class -> own + inherited dataclass fields
        self.bases: dict[str, list[str]] = {}
        for name, ci in m.classes.items():
            fields = []
            for st in ci.node.body:
                if isinstance(st, ast.AnnAssign) and isinstance(st.target, ast.Name) and not st.target.id.startswith("_"):
                    fields.append(st.target.id)
            self.classes[name] = fields
            self.bases[name] = [b for b in ci.bases if b in m.classes]
        # inherit
        for name in list(self.classes):
            seen = set()
            stack = list(self.bases.get(name, []))
            while stack:
                b = stack.pop()
                if b in seen:
                    continue
                seen.add(b)
                self.classes[name] = self.classes[b] + [f for f in self.classes[name] if f not in self.classes[b]]
                stack.extend(self.bases.get(b, []))
        self.node_classes = [c for c in self.classes if c == "ASTNode" or "ASTNode" in self._all_bases(c)]
        self.value_classes = [c for c in self.classes if c not in self.node_classes and c not in ("Absent",) and self.classes[c]]
        self.all_fields = sorted({f for c in self.node_classes + self.value_classes for f in self.classes[c]})
        self.position_fields = {"line", "column"}

    def _all_bases(self, c: str) -> set[str]:
        out, stack = set(), list(self.bases.get(c, []))
        while stack:
            b = stack.pop()
            if b not in out:
                out.add(b)
                stack.extend(self.bases.get(b, []))
        return out

    def ast_writes(self, fi: FuncInfo) -> Iterator[tuple[ast.AST, str, str]]:
        """(node, kind, field) for each store / mutating call that can modify a document AST object in fi.
        Receivers called `self` inside classes that are not AST classes are not AST objects."""
        fields = set(self.all_fields)
        self_is_ast = fi.cls in self.classes if fi.cls else False

        def recv_ok(base: ast.AST) -> bool:
            root = base
            while isinstance(root, (ast.Attribute, ast.Subscript)):
                root = root.value
            if isinstance(root, ast.Name) and root.id in ("self", "cls") and not self_is_ast:
                return False
            return True

        for n in walk_no_nested(fi.node):
            if isinstance(n, ast.Attribute) and isinstance(n.ctx, (ast.Store, ast.Del)) and n.attr in fields and recv_ok(n.value):
                yield n, "store", n.attr
            elif isinstance(n, ast.Subscript) and isinstance(n.ctx, (ast.Store, ast.Del)):
                b = n.value
                if isinstance(b, ast.Attribute) and b.attr in fields and recv_ok(b.value):
                    yield n, "item-store", b.attr
            elif isinstance(n, ast.Call) and isinstance(n.func, ast.Attribute) and n.func.attr in MUTATORS:
                b = n.func.value
                if isinstance(b, ast.Attribute) and b.attr in fields and recv_ok(b.value):
                    yield n, f"mutator .{n.func.attr}()", b.attr
            elif isinstance(n, ast.AugAssign):
                t = n.target
                if isinstance(t, ast.Attribute) and t.attr in fields and recv_ok(t.value):
                    yield n, "augmented store", t.attr
                if isinstance(t, ast.Subscript) and isinstance(t.value, ast.Attribute) and t.value.attr in fields and recv_ok(t.value.value):
                    yield n, "augmented item-store", t.value.attr
            elif isinstance(n, ast.Call) and isinstance(n.func, ast.Name) and n.func.id in ("setattr", "delattr") and len(n.args) >= 2:
                yield n, n.func.id, ast.unparse(n.args[1])

    def constructions(self, fi: FuncInfo) -> Iterator[tuple[ast.Call, str]]:
        for n in walk_no_nested(fi.node):
            if isinstance(n, ast.Call) and isinstance(n.func, ast.Name) and n.func.id in self.classes and n.func.id != "Absent":
                yield n, n.func.id
