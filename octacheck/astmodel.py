"""Facts about the document AST classes (read from core/ast_nodes.py) and AST-write effect detection."""
from __future__ import annotations

import ast
from typing import Iterator

from .source import FuncInfo, Project, walk_no_nested

MUTATORS = {"append", "extend", "insert", "remove", "pop", "clear", "update", "setdefault", "add", "discard", "popitem", "sort", "reverse"}


class AstModel:
    def __init__(self, project: Project):
        m = project.mod("core.ast_nodes")
        self.module = m
        self.classes: dict[str, list[str]] = {}  # class -> own + inherited dataclass fields
        self.bases: dict[str, list[str]] = {}
        for name, ci in m.classes.items():
            fields = []
            for st in ci.node.body:
                if isinstance(st, ast.AnnAssign) and isinstance(st.target, ast.Name) and not st.target.id.startswith("_"):
                    fields.append(st.target.id)
            self.classes[name] = fields
            self.bases[name] = [b for b in ci.bases if b in m.classes]
        # inherit
        for name in list(self.classes):
            seen = set()
            stack = list(self.bases.get(name, []))
            while stack:
                b = stack.pop()
                if b in seen:
                    continue
                seen.add(b)
                self.classes[name] = self.classes[b] + [f for f in self.classes[name] if f not in self.classes[b]]
                stack.extend(self.bases.get(b, []))
        self.node_classes = [c for c in self.classes if c == "ASTNode" or "ASTNode" in self._all_bases(c)]
        self.value_classes = [c for c in self.classes if c not in self.node_classes and c not in ("Absent",) and self.classes[c]]
        self.all_fields = sorted({f for c in self.node_classes + self.value_classes for f in self.classes[c]})
        self.position_fields = {"line", "column"}
        self._cp = None

    def _all_bases(self, c: str) -> set[str]:
        out, stack = set(), list(self.bases.get(c, []))
        while stack:
            b = stack.pop()
            if b not in out:
                out.add(b)
                stack.extend(self.bases.get(b, []))
        return out

    def _non_ast_typed(self, fi: FuncInfo, name: str, res) -> bool:
        """the local `name` is known (constructor call / annotation, here or in the enclosing function) to be an
        instance of a repository class that is not a document AST class"""
        if res is None:
            return False
        cur: FuncInfo | None = fi
        while cur is not None:
            ci = res.local_types(cur).get(name)
            if ci is not None:
                return ci.name not in self.classes
            cur = cur.module.functions.get(cur.parent_func) if cur.parent_func else None
        return False

    CONTAINER_FIELDS = {"children", "sections", "meta", "items", "pairs", "leading_comments", "trailing_comments", "tokens"}

    def container_params(self, res) -> dict[str, dict[str, str]]:
        """fqn -> {param name: field} for parameters that some call site binds to `<obj>.<container field>` of a document"""
        if getattr(self, "_cp", None) is not None:
            return self._cp
        cp: dict[str, dict[str, str]] = {}
        if res is not None:
            for fi in res.p.all_functions():
                for n in walk_no_nested(fi.node):
                    if not isinstance(n, ast.Call):
                        continue
                    cand = [(i, a) for i, a in enumerate(n.args) if isinstance(a, ast.Attribute) and a.attr in self.CONTAINER_FIELDS]
                    candk = [(k.arg, k.value) for k in n.keywords if k.arg and isinstance(k.value, ast.Attribute) and k.value.attr in self.CONTAINER_FIELDS]
                    if not cand and not candk:
                        continue
                    for c in res.resolve_call(fi, n):
                        if c.kind != "repo" or c.func is None:
                            continue
                        a = c.func.node.args
                        ps = [x.arg for x in list(a.posonlyargs) + list(a.args)]
                        off = 1 if ps and ps[0] in ("self", "cls") else 0
                        for i, arg in cand:
                            if i + off < len(ps):
                                cp.setdefault(c.func.fqn, {})[ps[i + off]] = arg.attr
                        for name, arg in candk:
                            cp.setdefault(c.func.fqn, {})[name] = arg.attr
        self._cp = cp
        return cp

    def ast_writes(self, fi: FuncInfo, res=None) -> Iterator[tuple[ast.AST, str, str]]:
        """(node, kind, field) for each store / mutating call that can modify a document AST object in fi.
        Receivers called `self` inside classes that are not AST classes are not AST objects."""
        fields = set(self.all_fields)
        self_is_ast = fi.cls in self.classes if fi.cls else False

        def recv_ok(base: ast.AST) -> bool:
            root = base
            while isinstance(root, (ast.Attribute, ast.Subscript)):
                root = root.value
            if isinstance(root, ast.Name) and root.id in ("self", "cls") and not self_is_ast:
                return False
            if isinstance(root, ast.Name) and self._non_ast_typed(fi, root.id, res):
                return False
            return True

        # names that alias a document container: parameters bound to `<obj>.<field>` at a call site, locals bound from one
        aliases: dict[str, str] = dict(self.container_params(res).get(fi.fqn, {})) if res is not None else {}
        for n in walk_no_nested(fi.node):
            if isinstance(n, ast.Assign) and len(n.targets) == 1 and isinstance(n.targets[0], ast.Name) and isinstance(n.value, ast.Attribute) and n.value.attr in self.CONTAINER_FIELDS and recv_ok(n.value.value):
                aliases[n.targets[0].id] = n.value.attr
        for n in walk_no_nested(fi.node):
            if aliases:
                if isinstance(n, ast.Subscript) and isinstance(n.ctx, (ast.Store, ast.Del)) and isinstance(n.value, ast.Name) and n.value.id in aliases:
                    yield n, "item-store (through alias)", aliases[n.value.id]
                elif isinstance(n, ast.Call) and isinstance(n.func, ast.Attribute) and n.func.attr in MUTATORS and isinstance(n.func.value, ast.Name) and n.func.value.id in aliases:
                    yield n, f"mutator .{n.func.attr}() (through alias)", aliases[n.func.value.id]
            if isinstance(getattr(n, "_parent", None), ast.AugAssign) and getattr(n, "_parent").target is n:
                continue  # reported once, as the augmented store
            if isinstance(n, ast.Attribute) and isinstance(n.ctx, (ast.Store, ast.Del)) and n.attr in fields and recv_ok(n.value):
                yield n, "store", n.attr
            elif isinstance(n, ast.Subscript) and isinstance(n.ctx, (ast.Store, ast.Del)):
                b = n.value
                if isinstance(b, ast.Attribute) and b.attr in fields and recv_ok(b.value):
                    yield n, "item-store", b.attr
            elif isinstance(n, ast.Call) and isinstance(n.func, ast.Attribute) and n.func.attr in MUTATORS:
                b = n.func.value
                if isinstance(b, ast.Attribute) and b.attr in fields and recv_ok(b.value):
                    yield n, f"mutator .{n.func.attr}()", b.attr
            elif isinstance(n, ast.AugAssign):
                t = n.target
                if isinstance(t, ast.Attribute) and t.attr in fields and recv_ok(t.value):
                    yield n, "augmented store", t.attr
                if isinstance(t, ast.Subscript) and isinstance(t.value, ast.Attribute) and t.value.attr in fields and recv_ok(t.value.value):
                    yield n, "augmented item-store", t.value.attr
            elif isinstance(n, ast.Call) and isinstance(n.func, ast.Name) and n.func.id in ("setattr", "delattr") and len(n.args) >= 2:
                yield n, n.func.id, ast.unparse(n.args[1])

    def constructions(self, fi: FuncInfo) -> Iterator[tuple[ast.Call, str]]:
        for n in walk_no_nested(fi.node):
            if isinstance(n, ast.Call) and isinstance(n.func, ast.Name) and n.func.id in self.classes and n.func.id != "Absent":
                yield n, n.func.id
