"""Both-ways test of the checkers: each variant is one textual edit of a scratch copy of /repo/src
(made in a mkdtemp directory outside /repo and /verif, removed afterwards). 'fire' variants break one
rule instance and must be reported with the expected rule; 'silent' variants preserve behaviour and
must produce exit 0.

usage: python -m octacheck.selftest [PROP ...] [-j N] [--only ID]
Variants live in /verif/octacheck/variants/<prop>.py as a list VARIANTS of dicts:
  {id, file, old, new, expect: 'R16.2' | 'silent', count: 1}
`old` must occur exactly `count` times (default 1) in the file, otherwise the variant is stale (reported).
"""
from __future__ import annotations

import ast
import importlib
import json
import os
import shutil
import subprocess
import sys
import tempfile
from concurrent.futures import ThreadPoolExecutor

HERE = os.path.dirname(os.path.dirname(os.path.abspath(__file__)))
REPO = os.environ.get("OCTAVE_REPO", "/repo")


def load_variants(prop: str) -> list[dict]:
    try:
        m = importlib.import_module(f"octacheck.variants.{prop.lower()}")
    except ModuleNotFoundError:
        return []
    return list(m.VARIANTS)


def run_variant(prop: str, v: dict, tier: str = "quick") -> dict:
    d = tempfile.mkdtemp(prefix="octacheck-variant-")
    try:
        dst = os.path.join(d, "src", "octave_mcp")
        shutil.copytree(os.path.join(REPO, "src", "octave_mcp"), dst, ignore=shutil.ignore_patterns("__pycache__"))
        edits = v.get("edits") or [{"file": v["file"], "old": v["old"], "new": v["new"], "count": v.get("count", 1)}]
        for e in edits:
            path = os.path.join(d, e["file"])
            with open(path, encoding="utf-8") as fh:
                text = fh.read()
            n = text.count(e["old"])
            if n != e.get("count", 1):
                return {"id": v["id"], "status": "STALE", "detail": f"{e['file']}: old text occurs {n} times, expected {e.get('count', 1)}"}
            text = text.replace(e["old"], e["new"])
            try:
                ast.parse(text)
            except SyntaxError as ex:
                return {"id": v["id"], "status": "STALE", "detail": f"variant does not parse: {ex}"}
            with open(path, "w", encoding="utf-8") as fh:
                fh.write(text)
        p = subprocess.run([os.path.join(HERE, "check"), prop, "--tier", tier, "--repo", d, "--no-evidence"], capture_output=True, text=True, cwd=HERE)
        out = p.stdout + p.stderr
        expect = v["expect"]
        if expect == "silent":
            ok = p.returncode == 0
            return {"id": v["id"], "status": "OK" if ok else "FALSE-ALARM", "rc": p.returncode, "detail": "" if ok else _tail(out)}
        rules = expect if isinstance(expect, (list, tuple)) else [expect]
        fired = p.returncode == 1 and "VIOLATION property=" + prop in out
        named = any(f"rule={r}" in out for r in rules)
        if fired and named:
            return {"id": v["id"], "status": "OK", "rc": 1}
        if fired:
            return {"id": v["id"], "status": "WRONG-RULE", "rc": 1, "detail": _tail(out)}
        return {"id": v["id"], "status": "MISSED" if p.returncode == 0 else f"RC{p.returncode}", "rc": p.returncode, "detail": _tail(out)}
    finally:
        shutil.rmtree(d, ignore_errors=True)


def _tail(out: str, n: int = 12) -> str:
    lines = [l for l in out.splitlines() if l.startswith(("VIOLATION", "ANALYSIS-ERROR", "  ")) and not l.startswith(("  rule ", "  note", "  control"))]
    return "\n".join(lines[:n])


def main(argv: list[str]) -> int:
    jobs = 16
    only = None
    props = []
    i = 0
    while i < len(argv):
        if argv[i] == "-j":
            jobs = int(argv[i + 1])
            i += 2
        elif argv[i] == "--only":
            only = argv[i + 1]
            i += 2
        else:
            props.append(argv[i])
            i += 1
    if not props:
        props = [f"C{n:02d}" for n in range(1, 21)]
    tasks = []
    for p in props:
        for v in load_variants(p):
            if only and v["id"] != only:
                continue
            tasks.append((p, v))
    results = []
    with ThreadPoolExecutor(max_workers=jobs) as ex:
        futs = [(p, v, ex.submit(run_variant, p, v)) for p, v in tasks]
        for p, v, f in futs:
            r = f.result()
            r["prop"] = p
            r["expect"] = v["expect"]
            results.append(r)
    bad = 0
    for r in results:
        flag = "" if r["status"] == "OK" else "   <<<<<<"
        print(f"{r['prop']} {r['id']:<48} expect={str(r['expect']):<10} {r['status']}{flag}")
        if r["status"] != "OK":
            bad += 1
            if r.get("detail"):
                print("    " + r["detail"].replace("\n", "\n    "))
    print(f"{len(results)} variants, {bad} not OK")
    with open(os.path.join(HERE, "selftest_results.json"), "w") as fh:
        json.dump(results, fh, indent=1)
    return 1 if bad else 0


if __name__ == "__main__":
    sys.path.insert(0, HERE)
    sys.exit(main(sys.argv[1:]))
