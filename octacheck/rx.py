"""E5/E6: regular-language engine over a symbolic alphabet.

* Alphabet: every ASCII character, every non-ASCII character that occurs literally in a regex or predicate
  constant of the repository, and one representative per Unicode general category. A symbol IS its
  representative character, so character-level questions (class membership, \\w, \\d, category) are answered
  on the representative; the partition is respected by every construct we translate (classes mention only
  explicit characters, ranges inside ASCII, and the categories \\d \\w \\s, which are unions of general categories).
* NFA with context assertions on epsilon edges: BEGIN, END (\\Z), END_DOLLAR ($), WORD_BOUNDARY, NOT_WORD_BOUNDARY,
  NOT_PRECEDED_BY(set), PRECEDED_BY(set). Closures are computed with the previous and the next symbol known.
* Decision procedures by BFS over (subset of A, subset of B, previous symbol): emptiness of intersection and
  inclusion, both with a shortest witness string.
"""
from __future__ import annotations

import re
import re._constants as sc  # type: ignore[import-not-found]
import re._parser as sp  # type: ignore[import-not-found]
import sys
import unicodedata
from collections import deque
from dataclasses import dataclass, field
from typing import Callable, Iterable

from .source import AnalysisError


class Unsupported(AnalysisError):
    pass


# ----------------------------------------------------------------------------- alphabet
class Alphabet:
    def __init__(self, extra_chars: Iterable[str] = ()):
        syms = [chr(i) for i in range(128)]
        special = sorted({c for c in extra_chars if ord(c) >= 128})
        syms += special
        seen_cat: dict[str, str] = {}
        # one representative per general category among non-ASCII, non-special characters (deterministic: lowest code point)
        want = {"Lu", "Ll", "Lt", "Lm", "Lo", "Mn", "Mc", "Me", "Nd", "Nl", "No", "Pc", "Pd", "Ps", "Pe", "Pi", "Pf", "Po", "Sm", "Sc", "Sk", "So", "Zs", "Zl", "Zp", "Cc", "Cf", "Co", "Cn"}
        cp = 128
        while want - set(seen_cat) and cp < 0x30000:
            ch = chr(cp)
            if ch not in special and not (0xD800 <= cp <= 0xDFFF):
                cat = unicodedata.category(ch)
                if cat in want and cat not in seen_cat:
                    seen_cat[cat] = ch
            cp += 1
        syms += [seen_cat[c] for c in sorted(seen_cat)]
        self.symbols: list[str] = syms
        self.index = {c: i for i, c in enumerate(syms)}
        self.special = special
        self.category_rep = seen_cat
        self._word = re.compile(r"\w")

    def is_word(self, ch: str) -> bool:
        return bool(self._word.fullmatch(ch))

    def describe(self, ch: str) -> str:
        if ord(ch) < 128 or ch in self.special:
            return ch
        return f"<{unicodedata.category(ch)}:U+{ord(ch):04X}>"


# ----------------------------------------------------------------------------- NFA
BEGIN, END, END_DOLLAR, WB, NWB = "begin", "end", "end$", "wb", "nwb"


@dataclass
class NFA:
    n: int = 0
    start: int = 0
    accept: set[int] = field(default_factory=set)
    trans: dict[int, list[tuple[frozenset[str], int]]] = field(default_factory=dict)  # state -> [(symbols, target)]
    eps: dict[int, list[tuple[tuple | None, int]]] = field(default_factory=dict)  # state -> [(assertion|None, target)]

    def new(self) -> int:
        s = self.n
        self.n += 1
        self.trans[s] = []
        self.eps[s] = []
        return s

    def add(self, a: int, syms: frozenset[str], b: int) -> None:
        self.trans[a].append((syms, b))

    def add_eps(self, a: int, b: int, assertion: tuple | None = None) -> None:
        self.eps[a].append((assertion, b))


class Builder:
    """fragment combinators; a fragment is (start, end) in self.nfa"""

    def __init__(self, alphabet: Alphabet, ignore_lookaround: bool = False):
        self.A = alphabet
        self.nfa = NFA()
        self.all = frozenset(alphabet.symbols)
        # over-approximation used by the ambiguity check: an untranslatable look-around is treated as always true
        self.ignore_lookaround = ignore_lookaround

    def sym(self, chars: Iterable[str]) -> tuple[int, int]:
        a, b = self.nfa.new(), self.nfa.new()
        self.nfa.add(a, frozenset(chars), b)
        return a, b

    def lit(self, text: str) -> tuple[int, int]:
        frs = [self.sym([c]) for c in text]
        return self.seq(*frs) if frs else self.empty()

    def empty(self) -> tuple[int, int]:
        a = self.nfa.new()
        return a, a

    def assertion(self, kind: tuple) -> tuple[int, int]:
        a, b = self.nfa.new(), self.nfa.new()
        self.nfa.add_eps(a, b, kind)
        return a, b

    def seq(self, *frs: tuple[int, int]) -> tuple[int, int]:
        if not frs:
            return self.empty()
        for (a, b), (c, d) in zip(frs, frs[1:]):
            self.nfa.add_eps(b, c)
        return frs[0][0], frs[-1][1]

    def alt(self, *frs: tuple[int, int]) -> tuple[int, int]:
        a, b = self.nfa.new(), self.nfa.new()
        for s, e in frs:
            self.nfa.add_eps(a, s)
            self.nfa.add_eps(e, b)
        return a, b

    def star(self, fr: tuple[int, int]) -> tuple[int, int]:
        a, b = self.nfa.new(), self.nfa.new()
        self.nfa.add_eps(a, fr[0])
        self.nfa.add_eps(fr[1], b)
        self.nfa.add_eps(a, b)
        self.nfa.add_eps(fr[1], fr[0])
        return a, b

    def opt(self, fr: tuple[int, int]) -> tuple[int, int]:
        return self.alt(fr, self.empty())

    def plus(self, mk: Callable[[], tuple[int, int]]) -> tuple[int, int]:
        return self.seq(mk(), self.star(mk()))

    def any_star(self) -> tuple[int, int]:
        return self.star(self.sym(self.all))

    def finish(self, fr: tuple[int, int]) -> NFA:
        self.nfa.start = fr[0]
        self.nfa.accept = {fr[1]}
        return self.nfa

    # -------------------------------------------------------------- regex
    def class_chars(self, items) -> frozenset[str]:
        """characters of the alphabet matched by an IN item list"""
        neg = False
        acc: set[str] = set()
        for op, av in items:
            if op is sc.NEGATE:
                neg = True
            elif op is sc.LITERAL:
                ch = chr(av)
                if ch not in self.A.index:
                    raise Unsupported(f"literal U+{av:04X} not in the symbolic alphabet")
                acc.add(ch)
            elif op is sc.RANGE:
                lo, hi = av
                if hi >= 128:
                    raise Unsupported(f"character range beyond ASCII ({lo:#x}-{hi:#x})")
                acc.update(chr(i) for i in range(lo, hi + 1))
            elif op is sc.CATEGORY:
                acc.update(self.category_chars(av))
            else:
                raise Unsupported(f"class item {op}")
        return frozenset(self.all - acc) if neg else frozenset(acc)

    def category_chars(self, cat) -> frozenset[str]:
        table = {sc.CATEGORY_DIGIT: r"\d", sc.CATEGORY_NOT_DIGIT: r"\D", sc.CATEGORY_SPACE: r"\s", sc.CATEGORY_NOT_SPACE: r"\S", sc.CATEGORY_WORD: r"\w", sc.CATEGORY_NOT_WORD: r"\W"}
        if cat not in table:
            raise Unsupported(f"category {cat}")
        rx = re.compile(table[cat])
        return frozenset(c for c in self.A.symbols if rx.fullmatch(c))

    def regex(self, pattern: str, flags: int = 0) -> tuple[int, int]:
        if flags & ~(re.UNICODE | re.DOTALL):
            raise Unsupported(f"regex flags {flags}")
        tree = sp.parse(pattern, flags)
        return self._items(list(tree), flags)

    def _items(self, items, flags: int) -> tuple[int, int]:
        frs = [self._item(op, av, flags) for op, av in items]
        return self.seq(*frs) if frs else self.empty()

    def _item(self, op, av, flags: int) -> tuple[int, int]:
        if op is sc.LITERAL:
            ch = chr(av)
            if ch not in self.A.index:
                raise Unsupported(f"literal U+{av:04X} not in the symbolic alphabet")
            return self.sym([ch])
        if op is sc.NOT_LITERAL:
            return self.sym(self.all - {chr(av)})
        if op is sc.ANY:
            return self.sym(self.all if flags & re.DOTALL else self.all - {"\n"})
        if op is sc.IN:
            return self.sym(self.class_chars(av))
        if op is sc.BRANCH:
            return self.alt(*[self._items(list(alt), flags) for alt in av[1]])
        if op is sc.SUBPATTERN:
            return self._items(list(av[3]), flags)
        if op in (sc.MAX_REPEAT, sc.MIN_REPEAT, getattr(sc, "POSSESSIVE_REPEAT", None)):
            lo, hi, sub = av
            sub = list(sub)
            parts = [self._items(sub, flags) for _ in range(lo)]
            if hi is sc.MAXREPEAT:
                parts.append(self.star(self._items(sub, flags)))
            else:
                if hi - lo > 64:
                    raise Unsupported(f"bounded repeat too wide {{{lo},{hi}}}")
                for _ in range(hi - lo):
                    parts.append(self.opt(self._items(sub, flags)))
            return self.seq(*parts) if parts else self.empty()
        if op is sc.AT:
            kinds = {sc.AT_BEGINNING: (BEGIN,), sc.AT_BEGINNING_STRING: (BEGIN,), sc.AT_END: (END_DOLLAR,), sc.AT_END_STRING: (END,), sc.AT_BOUNDARY: (WB,), sc.AT_NON_BOUNDARY: (NWB,)}
            if av not in kinds:
                raise Unsupported(f"anchor {av}")
            return self.assertion(kinds[av])
        if op in (sc.ASSERT, sc.ASSERT_NOT):
            direction, sub = av
            sub = list(sub)
            if direction == -1 and len(sub) == 1 and sub[0][0] in (sc.LITERAL, sc.IN, sc.NOT_LITERAL):
                chars = frozenset([chr(sub[0][1])]) if sub[0][0] is sc.LITERAL else (self.class_chars(sub[0][1]) if sub[0][0] is sc.IN else self.all - {chr(sub[0][1])})
                return self.assertion(("notprev" if op is sc.ASSERT_NOT else "prev", chars))
            if self.ignore_lookaround:
                return self.empty()
            raise Unsupported("look-ahead / multi-character look-behind")
        raise Unsupported(f"regex construct {op}")


# ----------------------------------------------------------------------------- simulation
CTX_START = "\x00ctx"  # pseudo previous symbol: start of the whole string (no character before)


class Sim:
    def __init__(self, nfa: NFA, alphabet: Alphabet, begin_is_string_start: bool = True, ctx_prev_word: bool = False):
        self.nfa = nfa
        self.A = alphabet
        self.begin_is_string_start = begin_is_string_start
        self.ctx_prev_word = ctx_prev_word
        self._cl: dict[tuple[frozenset[int], str, str | None], frozenset[int]] = {}

    def _holds(self, assertion: tuple, prev: str, nxt: str | None) -> bool:
        k = assertion[0]
        if k == BEGIN:
            return prev == CTX_START and self.begin_is_string_start
        if k == END:
            return nxt is None
        if k == END_DOLLAR:
            return nxt is None  # we never append a trailing newline to the strings we reason about
        if k in (WB, NWB):
            pw = self.ctx_prev_word if prev == CTX_START else self.A.is_word(prev)
            nw = False if nxt is None else self.A.is_word(nxt)
            return (pw != nw) == (k == WB)
        if k == "notprev":
            return prev == CTX_START or prev not in assertion[1]
        if k == "prev":
            return prev != CTX_START and prev in assertion[1]
        raise Unsupported(f"assertion {k}")

    def closure(self, states: frozenset[int], prev: str, nxt: str | None) -> frozenset[int]:
        key = (states, prev, nxt)
        r = self._cl.get(key)
        if r is not None:
            return r
        out = set(states)
        stack = list(states)
        while stack:
            s = stack.pop()
            for assertion, t in self.nfa.eps[s]:
                if t in out:
                    continue
                if assertion is None or self._holds(assertion, prev, nxt):
                    out.add(t)
                    stack.append(t)
        r = frozenset(out)
        self._cl[key] = r
        return r

    def step(self, states: frozenset[int], prev: str, a: str) -> frozenset[int]:
        cl = self.closure(states, prev, a)
        out = set()
        for s in cl:
            for syms, t in self.nfa.trans[s]:
                if a in syms:
                    out.add(t)
        return frozenset(out)

    def accepts_here(self, states: frozenset[int], prev: str) -> bool:
        return bool(self.closure(states, prev, None) & self.nfa.accept)

    def init(self) -> frozenset[int]:
        return frozenset([self.nfa.start])

    def matches(self, text: str) -> bool:
        st, prev = self.init(), CTX_START
        for ch in text:
            st = self.step(st, prev, ch)
            prev = ch
            if not st:
                return False
        return self.accepts_here(st, prev)


def symbol_classes(alphabet: Alphabet, sims: list[Sim]) -> list[str]:
    """one representative per class of symbols that no transition label / assertion of the given automata can tell apart"""
    sig: dict[tuple, str] = {}
    labels = []
    for sm in sims:
        for s, ts in sm.nfa.trans.items():
            for syms, _ in ts:
                labels.append(syms)
        for s, es in sm.nfa.eps.items():
            for a, _ in es:
                if a is not None and a[0] in ("notprev", "prev"):
                    labels.append(a[1])
    uniq = list({l for l in labels})
    for ch in alphabet.symbols:
        k = (tuple(ch in l for l in uniq), alphabet.is_word(ch))
        if k not in sig:
            sig[k] = ch
    return list(sig.values())


def search_n(sims: list[Sim], alphabet: Alphabet, accept: Callable[[tuple], bool], need: Iterable[int] = (), max_states: int = 600000) -> str | None:
    """shortest string w such that accept((S_0 accepts w, S_1 accepts w, ...)); None if there is none.
    `need`: indexes of automata that must accept (search is pruned when one of them is dead)."""
    reps = symbol_classes(alphabet, sims)
    need = tuple(need)
    start = (tuple(sm.init() for sm in sims), CTX_START)
    if accept(tuple(sm.accepts_here(st, CTX_START) for sm, st in zip(sims, start[0]))):
        return ""
    seen = {start}
    q = deque([(start, "")])
    while q:
        (sts, prev), w = q.popleft()
        for ch in reps:
            nxt = tuple(sm.step(st, prev, ch) if st else st for sm, st in zip(sims, sts))
            if any(not nxt[i] for i in need):
                continue
            key = (nxt, ch)
            if key in seen:
                continue
            seen.add(key)
            if len(seen) > max_states:
                raise AnalysisError("automata product exceeded the state budget")
            w2 = w + ch
            if accept(tuple(bool(st) and sm.accepts_here(st, ch) for sm, st in zip(sims, nxt))):
                return w2
            q.append((key, w2))
    return None


def intersect_witness(a: Sim, b: Sim, alphabet: Alphabet) -> str | None:
    return search_n([a, b], alphabet, lambda v: v[0] and v[1], need=(0, 1))


def not_included_witness(a: Sim, b: Sim, alphabet: Alphabet) -> str | None:
    """a string in L(A) that is not in L(B)"""
    return search_n([a, b], alphabet, lambda v: v[0] and not v[1], need=(0,))


def show(w: str, alphabet: Alphabet) -> str:
    return "".join(alphabet.describe(c) for c in w)


# ----------------------------------------------------------------------------- predicate evaluation (E6)
import ast  # noqa: E402


class PredicateEval:
    """Evaluates a pure single-character predicate function of the repository on one representative character by
    interpreting its AST (a tiny expression language; anything else is an AnalysisError). No repository code runs."""

    def __init__(self, funcs: dict[str, ast.FunctionDef], consts: dict[str, object], lookup: Callable[[str], object] | None = None):
        self.funcs = funcs
        self.consts = consts
        self.lookup = lookup  # folds a module-level constant by name (raises / returns a sentinel when it cannot)

    def call(self, name: str, ch: str, depth: int = 0) -> bool:
        fn = self.funcs.get(name)
        if fn is None or depth > 5:
            raise AnalysisError(f"predicate {name} not available")
        param = fn.args.args[0].arg
        env = {param: ch}
        r = self._block(fn.body, env, depth)
        if r is None:
            raise AnalysisError(f"predicate {name} fell off its end")
        return bool(r)

    def _block(self, body, env, depth):
        for st in body:
            if isinstance(st, ast.Expr) and isinstance(st.value, ast.Constant):
                continue
            if isinstance(st, ast.Return):
                return self._expr(st.value, env, depth) if st.value is not None else None
            if isinstance(st, ast.If):
                if self._expr(st.test, env, depth):
                    r = self._block(st.body, env, depth)
                else:
                    r = self._block(st.orelse, env, depth)
                if r is not None:
                    return r
                continue
            if isinstance(st, ast.Assign) and len(st.targets) == 1 and isinstance(st.targets[0], ast.Name):
                env[st.targets[0].id] = self._expr(st.value, env, depth)
                continue
            raise AnalysisError(f"unsupported statement in character predicate: {ast.unparse(st)[:60]}")
        return None

    def _expr(self, e, env, depth):
        if isinstance(e, ast.Constant):
            return e.value
        if isinstance(e, ast.Name):
            if e.id in env:
                return env[e.id]
            if e.id in self.consts:
                return self.consts[e.id]
            if self.lookup is not None:
                v = self.lookup(e.id)
                if isinstance(v, (str, int, tuple, list, set, frozenset)):
                    self.consts[e.id] = v
                    return v
            raise AnalysisError(f"unknown name {e.id} in character predicate")
        if isinstance(e, (ast.Tuple, ast.List)):
            return tuple(self._expr(x, env, depth) for x in e.elts)
        if isinstance(e, ast.Set):
            return frozenset(self._expr(x, env, depth) for x in e.elts)
        if isinstance(e, ast.BoolOp):
            if isinstance(e.op, ast.And):
                v = True
                for x in e.values:
                    v = self._expr(x, env, depth)
                    if not v:
                        return v
                return v
            v = False
            for x in e.values:
                v = self._expr(x, env, depth)
                if v:
                    return v
            return v
        if isinstance(e, ast.UnaryOp) and isinstance(e.op, ast.Not):
            return not self._expr(e.operand, env, depth)
        if isinstance(e, ast.Compare) and len(e.ops) == 1:
            l = self._expr(e.left, env, depth)
            r = self._expr(e.comparators[0], env, depth)
            op = e.ops[0]
            if isinstance(op, ast.In):
                return l in r
            if isinstance(op, ast.NotIn):
                return l not in r
            if isinstance(op, ast.Eq):
                return l == r
            if isinstance(op, ast.NotEq):
                return l != r
            raise AnalysisError("unsupported comparison in character predicate")
        if isinstance(e, ast.Call):
            f = e.func
            if isinstance(f, ast.Attribute):
                if ast.unparse(f) == "unicodedata.category":
                    return unicodedata.category(self._expr(e.args[0], env, depth))
                recv = self._expr(f.value, env, depth)
                if isinstance(recv, str) and f.attr in ("isascii", "isalpha", "isalnum", "isdigit", "isdecimal", "isnumeric", "isspace", "isupper", "islower", "isidentifier") and not e.args:
                    return getattr(recv, f.attr)()
                if isinstance(recv, str) and f.attr in ("startswith", "endswith") and len(e.args) == 1:
                    return getattr(recv, f.attr)(self._expr(e.args[0], env, depth))
                raise AnalysisError(f"unsupported call in character predicate: {ast.unparse(e)}")
            if isinstance(f, ast.Name) and f.id in self.funcs:
                return self.call(f.id, self._expr(e.args[0], env, depth), depth + 1)
            if isinstance(f, ast.Name) and f.id in ("len", "ord", "bool"):
                return {"len": len, "ord": ord, "bool": bool}[f.id](self._expr(e.args[0], env, depth))
        raise AnalysisError(f"unsupported expression in character predicate: {ast.unparse(e)[:60]}")
