"""Classification of filesystem calls (by resolved callee) and a per-function analysis bundle."""
from __future__ import annotations

import ast
from dataclasses import dataclass
from typing import Callable, Iterator

from .cfg import CFG
from .resolve import Callee, Resolver
from .source import FuncInfo, walk_no_nested

# effect classes
READ = "read"
STAT_FOLLOW = "stat-follow"
STAT_NOFOLLOW = "stat-nofollow"
WRITE_OPEN = "write-open"
RENAME = "rename"
DELETE = "delete"
MKDIR = "mkdir"
CHMOD = "chmod"
CREATE_TEMP = "create-temp"
MUTATE_OTHER = "mutate-other"
FILEOBJ = "fileobj"
LISTDIR = "listdir"

MUTATING = {WRITE_OPEN, RENAME, DELETE, MKDIR, CHMOD, CREATE_TEMP, MUTATE_OTHER}

EXT_TABLE = {
    "os.replace": RENAME, "os.rename": RENAME, "os.renames": RENAME, "shutil.move": RENAME,
    "os.unlink": DELETE, "os.remove": DELETE, "os.rmdir": DELETE, "shutil.rmtree": DELETE, "os.removedirs": DELETE,
    "os.mkdir": MKDIR, "os.makedirs": MKDIR,
    "os.fchmod": CHMOD, "os.chmod": CHMOD, "os.lchmod": CHMOD, "os.chown": CHMOD, "os.fchown": CHMOD,
    "tempfile.mkstemp": CREATE_TEMP, "tempfile.NamedTemporaryFile": CREATE_TEMP, "tempfile.mkdtemp": CREATE_TEMP,
    "tempfile.TemporaryFile": CREATE_TEMP, "tempfile.TemporaryDirectory": CREATE_TEMP, "tempfile.mktemp": CREATE_TEMP,
    "shutil.copy": MUTATE_OTHER, "shutil.copy2": MUTATE_OTHER, "shutil.copyfile": MUTATE_OTHER, "shutil.copytree": MUTATE_OTHER,
    "shutil.copyfileobj": MUTATE_OTHER, "os.truncate": MUTATE_OTHER, "os.ftruncate": MUTATE_OTHER, "os.open": MUTATE_OTHER,
    "os.write": MUTATE_OTHER, "os.link": MUTATE_OTHER, "os.symlink": MUTATE_OTHER, "os.utime": MUTATE_OTHER,
    "os.mkfifo": MUTATE_OTHER, "os.mknod": MUTATE_OTHER, "os.sendfile": MUTATE_OTHER, "os.pwrite": MUTATE_OTHER,
    "os.path.exists": STAT_FOLLOW, "os.path.isfile": STAT_FOLLOW, "os.path.isdir": STAT_FOLLOW, "os.stat": STAT_FOLLOW,
    "os.path.getsize": STAT_FOLLOW, "os.path.getmtime": STAT_FOLLOW, "os.path.realpath": STAT_FOLLOW, "os.access": STAT_FOLLOW,
    "os.path.islink": STAT_NOFOLLOW, "os.lstat": STAT_NOFOLLOW, "os.path.lexists": STAT_NOFOLLOW, "os.readlink": STAT_NOFOLLOW,
    "os.listdir": LISTDIR, "os.scandir": LISTDIR, "os.walk": LISTDIR, "glob.glob": LISTDIR, "glob.iglob": LISTDIR,
    "os.fsync": FILEOBJ, "os.fdatasync": FILEOBJ, "os.close": FILEOBJ,
}

METHOD_TABLE = {
    ".write_text": WRITE_OPEN, ".write_bytes": WRITE_OPEN, ".touch": MUTATE_OTHER,
    ".unlink": DELETE, ".rmdir": DELETE, ".mkdir": MKDIR, ".chmod": CHMOD, ".lchmod": CHMOD,
    ".symlink_to": MUTATE_OTHER, ".hardlink_to": MUTATE_OTHER, ".rename": RENAME, ".truncate": MUTATE_OTHER,
    ".read_text": READ, ".read_bytes": READ,
    ".exists": STAT_FOLLOW, ".is_file": STAT_FOLLOW, ".is_dir": STAT_FOLLOW, ".stat": STAT_FOLLOW, ".resolve": STAT_FOLLOW,
    ".samefile": STAT_FOLLOW,
    ".is_symlink": STAT_NOFOLLOW, ".lstat": STAT_NOFOLLOW, ".readlink": STAT_NOFOLLOW,
    ".iterdir": LISTDIR, ".glob": LISTDIR, ".rglob": LISTDIR,
}


def open_mode(call: ast.Call, mode_pos: int) -> str | None:
    """constant mode string of an open-like call, 'r' when omitted, None when not constant"""
    node = None
    if len(call.args) > mode_pos:
        node = call.args[mode_pos]
    for kw in call.keywords:
        if kw.arg == "mode":
            node = kw.value
    if node is None:
        return "r"
    if isinstance(node, ast.Constant) and isinstance(node.value, str):
        return node.value
    return None


def classify(call: ast.Call, callees: list[Callee]) -> str | None:
    for c in callees:
        if c.kind == "ext":
            name = c.name
            if name in ("builtins.open", "io.open", "codecs.open"):
                mode = open_mode(call, 1)
                return READ if (mode is not None and not set(mode) & set("wax+")) else WRITE_OPEN
            if name == "os.fdopen":
                mode = open_mode(call, 1)
                return READ if (mode is not None and not set(mode) & set("wax+")) else WRITE_OPEN
            if name == "os.open" and len(call.args) >= 2:
                # os.open(path, flags): read-only when the flags are an |-combination of O_RDONLY / O_DIRECTORY / O_CLOEXEC /
                # O_NOFOLLOW / O_NONBLOCK / O_PATH (also through getattr(os, "O_...", 0)) - nothing that writes, creates or truncates
                flags = {x.attr for x in ast.walk(call.args[1]) if isinstance(x, ast.Attribute) and x.attr.startswith("O_")} | {x.value for x in ast.walk(call.args[1]) if isinstance(x, ast.Constant) and isinstance(x.value, str) and x.value.startswith("O_")}
                other = [x for x in ast.walk(call.args[1]) if isinstance(x, ast.Name) and x.id not in ("os", "getattr")]
                if flags and not other and flags <= {"O_RDONLY", "O_DIRECTORY", "O_CLOEXEC", "O_NOFOLLOW", "O_NONBLOCK", "O_PATH", "O_NOCTTY"} and "O_RDONLY" in flags:
                    return READ
            if name in EXT_TABLE:
                return EXT_TABLE[name]
            if name.startswith("pathlib.Path."):
                k = "." + name.rsplit(".", 1)[1]
                if k in METHOD_TABLE:
                    return METHOD_TABLE[k]
        elif c.kind == "method":
            if c.name == ".open":
                mode = open_mode(call, 0)
                return READ if (mode is not None and not set(mode) & set("wax+")) else WRITE_OPEN
            if c.name == ".replace":
                # str.replace(old, new) takes two arguments; Path.replace(target) takes one
                if len(call.args) + len(call.keywords) == 1:
                    return RENAME
                return None
            if c.name in METHOD_TABLE:
                return METHOD_TABLE[c.name]
    return None


@dataclass
class CallSite:
    call: ast.Call
    callees: list[Callee]
    effect: str | None
    nodes: list[int]  # cfg node ids evaluating this call

    @property
    def names(self) -> list[str]:
        return [c.name for c in self.callees]

    def is_ext(self, *names: str) -> bool:
        return any(c.kind == "ext" and c.name in names for c in self.callees)

    def is_method(self, *names: str) -> bool:
        return any(c.kind == "method" and c.name in names for c in self.callees)

    def is_repo(self, *suffixes: str) -> bool:
        return any(c.kind == "repo" and any(c.name.endswith(s) for s in suffixes) for c in self.callees)


class FuncAnalysis:
    def __init__(self, fi: FuncInfo, resolver: Resolver):
        self.fi = fi
        self.res = resolver
        self.cfg = CFG(fi.node)
        self.sites: list[CallSite] = []
        for n in walk_no_nested(fi.node):
            if isinstance(n, ast.Call):
                callees = resolver.resolve_call(fi, n)
                self.sites.append(CallSite(n, callees, classify(n, callees), self.cfg.node_for_stmt_containing(n)))
        self.sites.sort(key=lambda s: (s.call.lineno, s.call.col_offset))

    def find(self, pred: Callable[[CallSite], bool]) -> list[CallSite]:
        return [s for s in self.sites if pred(s)]

    def effects(self, classes: set[str]) -> list[CallSite]:
        return [s for s in self.sites if s.effect in classes]

    def assignments_to(self, name: str) -> Iterator[tuple[ast.AST, ast.AST | None]]:
        """(statement, value) for each binding of local `name` (tuple unpacking gives value=None plus the stmt)"""
        for n in walk_no_nested(self.fi.node):
            if isinstance(n, ast.Assign):
                for t in n.targets:
                    if isinstance(t, ast.Name) and t.id == name:
                        yield n, n.value
                    elif isinstance(t, (ast.Tuple, ast.List)):
                        for i, e in enumerate(t.elts):
                            if isinstance(e, ast.Name) and e.id == name:
                                yield n, _tuple_elem(n.value, i)
            elif isinstance(n, ast.AnnAssign) and isinstance(n.target, ast.Name) and n.target.id == name and n.value is not None:
                yield n, n.value
            elif isinstance(n, ast.AugAssign) and isinstance(n.target, ast.Name) and n.target.id == name:
                yield n, None
            elif isinstance(n, ast.withitem) and isinstance(n.optional_vars, ast.Name) and n.optional_vars.id == name:
                yield n, n.context_expr
            elif isinstance(n, (ast.For, ast.AsyncFor)):
                for e in ast.walk(n.target):
                    if isinstance(e, ast.Name) and e.id == name:
                        yield n, None
            elif isinstance(n, ast.NamedExpr) and n.target.id == name:
                yield n, n.value
            elif isinstance(n, ast.ExceptHandler) and n.name == name:
                yield n, None

    def tuple_source(self, name: str) -> tuple[ast.Call, int] | None:
        """if `name` is bound exactly once by unpacking `a, b = f(...)`, return (call, index)"""
        found = None
        for n in walk_no_nested(self.fi.node):
            if isinstance(n, ast.Assign) and isinstance(n.value, ast.Call):
                for t in n.targets:
                    if isinstance(t, (ast.Tuple, ast.List)):
                        for i, e in enumerate(t.elts):
                            if isinstance(e, ast.Name) and e.id == name:
                                if found is not None:
                                    return None
                                found = (n.value, i)
        return found


def _tuple_elem(value: ast.AST, i: int) -> ast.AST | None:
    if isinstance(value, (ast.Tuple, ast.List)) and i < len(value.elts):
        return value.elts[i]
    return None


def names_in(node: ast.AST) -> set[str]:
    return {n.id for n in ast.walk(node) if isinstance(n, ast.Name)}


def is_name(node: ast.AST | None, name: str) -> bool:
    return isinstance(node, ast.Name) and node.id == name
