from __future__ import annotations

import argparse
import importlib
import json
import os
import sys
import traceback

from .report import Run
from .source import AnalysisError, Project

PROPS = [f"C{n:02d}" for n in range(1, 21)]


def main(argv: list[str]) -> int:
    ap = argparse.ArgumentParser(prog="check")
    ap.add_argument("prop", nargs="?")
    ap.add_argument("--tier", default=os.environ.get("VERIF_TIER") or "quick", choices=["quick", "thorough"])
    ap.add_argument("--replay")
    ap.add_argument("--setup", action="store_true")
    ap.add_argument("--repo", default=None, help="analyse this checkout instead of /repo (self-tests on scratch copies)")
    ap.add_argument("--no-evidence", action="store_true")
    args = ap.parse_args(argv)
    if args.setup:
        return setup()
    if args.prop not in PROPS:
        print(f"usage: check <{PROPS[0]}..{PROPS[-1]}> [--tier quick|thorough] [--replay file]")
        return 2
    if args.repo:
        os.environ["OCTAVE_REPO"] = args.repo
    replay_key = None
    if args.replay:
        with open(args.replay, encoding="utf-8") as fh:
            replay_key = json.load(fh)["key"]
    try:
        project = Project(args.repo)
        run = Run(args.prop, args.tier, project)
        run.no_evidence = args.no_evidence
        mod = importlib.import_module(f"octacheck.rules.{args.prop.lower()}")
        try:
            mod.check(run)
        except AnalysisError as e:
            run.analysis_errors.append(str(e))
        return run.finalize(replay_key)
    except AnalysisError as e:
        print(f"ANALYSIS-ERROR property={args.prop} {e}")
        return 2
    except Exception:  # noqa: BLE001
        print(f"ANALYSIS-ERROR property={args.prop} internal error in the checker:")
        traceback.print_exc(file=sys.stdout)
        return 2


def setup() -> int:
    import ast  # noqa: F401
    import re._parser  # noqa: F401

    p = Project()
    u = p.units()
    print(f"setup ok: python {sys.version.split()[0]}, parsed {u['modules']} modules / {u['functions']} functions from {p.pkg_dir}")
    return 0
