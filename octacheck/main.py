from __future__ import annotations

import argparse
import importlib
import json
import os
import sys
import traceback

from .report import Run
from .source import AnalysisError, Project

PROPS = [f"C{n:02d}" for n in range(1, 21)]


def main(argv: list[str]) -> int:
    ap = argparse.ArgumentParser(prog="check")
    ap.add_argument("prop", nargs="?")
    ap.add_argument("--tier", default=os.environ.get("VERIF_TIER") or "quick", choices=["quick", "thorough"])
    ap.add_argument("--replay")
    ap.add_argument("--setup", action="store_true")
    ap.add_argument("--repo", default=None, help="analyse this checkout instead of /repo (self-tests on scratch copies)")
    ap.add_argument("--no-evidence", action="store_true")
    args = ap.parse_args(argv)
    if args.setup:
        return setup()
    if args.prop not in PROPS:
        print(f"usage: check <{PROPS[0]}..{PROPS[-1]}> [--tier quick|thorough] [--replay file]")
        return 2
    if args.repo:
        os.environ["OCTAVE_REPO"] = args.repo
    replay_key = None
    if args.replay:
        with open(args.replay, encoding="utf-8") as fh:
            replay_key = json.load(fh)["key"]
    try:
        project = Project(args.repo)
        run = Run(args.prop, args.tier, project)
        run.no_evidence = args.no_evidence
        mod = importlib.import_module(f"octacheck.rules.{args.prop.lower()}")
        try:
            mod.check(run)
        except AnalysisError as e:
            run.analysis_errors.append(str(e))
        if args.tier == "thorough" and not args.repo and not args.replay:
            _thorough_selftest(run, args.prop)
        return run.finalize(replay_key)
    except AnalysisError as e:
        print(f"ANALYSIS-ERROR property={args.prop} {e}")
        return 2
    except Exception:  # noqa: BLE001
        print(f"ANALYSIS-ERROR property={args.prop} internal error in the checker:")
        traceback.print_exc(file=sys.stdout)
        return 2


def _thorough_selftest(run: Run, prop: str) -> None:
    """thorough tier: besides the rules on the tree itself, re-run them on every both-ways variant of this property (one
    edit each on a scratch copy of the CURRENT tree under a mkdtemp directory, removed afterwards). The outcome is evidence
    about the checker's discrimination on today's code; it never changes the exit code (a variant whose anchor text moved
    is reported as stale, not as a failure of the property)."""
    from concurrent.futures import ThreadPoolExecutor

    from . import selftest

    variants = selftest.load_variants(prop)
    if not variants:
        run.extra["selftest"] = {"variants": 0}
        return
    with ThreadPoolExecutor(max_workers=min(16, os.cpu_count() or 4)) as ex:
        results = list(ex.map(lambda v: selftest.run_variant(prop, v), variants))
    by: dict[str, int] = {}
    for r in results:
        by[r["status"]] = by.get(r["status"], 0) + 1
    fire = sum(1 for v in variants if v["expect"] != "silent")
    run.extra["selftest"] = {
        "variants": len(variants), "breaking_variants": fire, "behaviour_preserving_variants": len(variants) - fire, "status_counts": by,
        "not_ok": [{"id": r["id"], "status": r["status"], "detail": r.get("detail", "")[:300]} for r in results if r["status"] != "OK"],
    }
    run.note(f"thorough: {len(variants)} both-ways variants of the current tree re-checked on scratch copies: {by}")


def setup() -> int:
    import ast  # noqa: F401
    import re._parser  # noqa: F401

    p = Project()
    u = p.units()
    print(f"setup ok: python {sys.version.split()[0]}, parsed {u['modules']} modules / {u['functions']} functions from {p.pkg_dir}")
    return 0
