"""`match` read as the if/elif chain it abbreviates.

The pinned tree has no `match` statement; every rule reads dispatch as `if isinstance(x, C): ... elif ...` / `if x == "k":`.
A maintainer may rewrite such a chain as `match x: case C(): ...` at any time without changing behaviour. The source model
therefore rewrites - in its own parsed copy, never on disk - every `match` whose patterns fall in the subset below into the
equivalent chain before any rule runs; anything else is left as it is (the rules then fail closed on it, as before).

    case C():                      isinstance(s, C)                 (also builtin bool(), int(), str() ...)
    case C(a=P, b=Q):              isinstance(s, C) and <s.a matches P> and <s.b matches Q>
    case A() | B():                isinstance(s, A | B)
    case 1 | "x" | X.Y:            s == 1 or s == "x" or s == X.Y
    case None / True / False:      s is None / True / False
    case _:                        else
    case name:                     else, with `name = s` first
    case P as name:                <P>, with `name = s` first in the body
    case P if guard:               <P> and guard (captured names in the guard stand for what they capture)
    case A(x=n) | (B() as n):      one arm per alternative, same body (alternatives that capture)
    match (e1, e2): case (P, Q):   <e1 matches P> and <e2 matches Q> (tuple display as subject, sequence patterns of its length)
    match s: case [P, *rest, Q]:   isinstance(s, (list, tuple)) and len(s) >= 2 and <s[0] matches P> and <s[-1] matches Q>, rest = list(s[1:-1])

The subject is evaluated once: a name or dotted name is used as it is, anything else is bound to a temporary first.
"""
from __future__ import annotations

import ast


class _Unsupported(Exception):
    pass


def _simple(e: ast.AST) -> bool:
    return isinstance(e, ast.Name) or (isinstance(e, ast.Attribute) and _simple(e.value))


def _cond(subj: ast.AST, pat: ast.AST, binds: list[ast.stmt]) -> ast.AST | None:
    """condition under which `subj` matches `pat` (None = always); capture bindings are appended to `binds`"""
    def s() -> ast.AST:
        return ast.parse(ast.unparse(subj), mode="eval").body

    if isinstance(pat, ast.MatchAs):
        inner = None if pat.pattern is None else _cond(subj, pat.pattern, binds)
        if pat.name is not None:
            binds.append(ast.Assign(targets=[ast.Name(id=pat.name, ctx=ast.Store())], value=s()))
        return inner
    if isinstance(pat, ast.MatchSingleton):
        return ast.Compare(left=s(), ops=[ast.Is()], comparators=[ast.Constant(value=pat.value)])
    if isinstance(pat, ast.MatchValue):
        return ast.Compare(left=s(), ops=[ast.Eq()], comparators=[pat.value])
    if isinstance(pat, ast.MatchClass):
        if pat.patterns:
            raise _Unsupported("positional sub-patterns")
        cond: ast.AST = ast.Call(func=ast.Name(id="isinstance", ctx=ast.Load()), args=[s(), pat.cls], keywords=[])
        parts = [cond]
        for attr, sub in zip(pat.kwd_attrs, pat.kwd_patterns):
            c = _cond(ast.Attribute(value=s(), attr=attr, ctx=ast.Load()), sub, binds)
            if c is not None:
                parts.append(c)
        return parts[0] if len(parts) == 1 else ast.BoolOp(op=ast.And(), values=parts)
    if isinstance(pat, ast.MatchSequence) and not isinstance(subj, ast.Tuple):
        # a sequence pattern on a named subject: a list / tuple of that length (at least that length with one *rest) whose
        # elements match
        stars = [i for i, p in enumerate(pat.patterns) if isinstance(p, ast.MatchStar)]
        if len(stars) > 1:
            raise _Unsupported("two starred sub-patterns")
        k = len(pat.patterns) - len(stars)
        parts3: list[ast.AST] = [
            ast.Call(func=ast.Name(id="isinstance", ctx=ast.Load()), args=[s(), ast.Tuple(elts=[ast.Name(id="list", ctx=ast.Load()), ast.Name(id="tuple", ctx=ast.Load())], ctx=ast.Load())], keywords=[]),
            ast.Compare(left=ast.Call(func=ast.Name(id="len", ctx=ast.Load()), args=[s()], keywords=[]), ops=[ast.GtE() if stars else ast.Eq()], comparators=[ast.Constant(value=k)]),
        ]
        for i, p in enumerate(pat.patterns):
            if isinstance(p, ast.MatchStar):
                if p.name is not None:
                    lo, hi = i, len(pat.patterns) - 1 - i
                    sl = ast.Slice(lower=ast.Constant(value=lo) if lo else None, upper=ast.UnaryOp(op=ast.USub(), operand=ast.Constant(value=hi)) if hi else None, step=None)
                    binds.append(ast.Assign(targets=[ast.Name(id=p.name, ctx=ast.Store())], value=ast.Call(func=ast.Name(id="list", ctx=ast.Load()), args=[ast.Subscript(value=s(), slice=sl, ctx=ast.Load())], keywords=[])))
                continue
            idx: ast.AST = ast.Constant(value=i) if not stars or i < stars[0] else ast.UnaryOp(op=ast.USub(), operand=ast.Constant(value=len(pat.patterns) - i))
            c = _cond(ast.Subscript(value=s(), slice=idx, ctx=ast.Load()), p, binds)
            if c is not None:
                parts3.append(c)
        return ast.BoolOp(op=ast.And(), values=parts3)
    if isinstance(pat, ast.MatchSequence):
        if not isinstance(subj, ast.Tuple) or len(subj.elts) != len(pat.patterns) or any(isinstance(p, ast.MatchStar) for p in pat.patterns):
            raise _Unsupported("sequence pattern on a subject that is not a tuple display of that length")
        parts2 = [c for e, p in zip(subj.elts, pat.patterns) for c in [_cond(e, p, binds)] if c is not None]
        if not parts2:
            return None
        return parts2[0] if len(parts2) == 1 else ast.BoolOp(op=ast.And(), values=parts2)
    if isinstance(pat, ast.MatchOr):
        if all(isinstance(p, ast.MatchClass) and not p.patterns and not p.kwd_patterns for p in pat.patterns):
            cls: ast.AST = pat.patterns[0].cls  # type: ignore[union-attr]
            for p in pat.patterns[1:]:
                cls = ast.BinOp(left=cls, op=ast.BitOr(), right=p.cls)  # type: ignore[union-attr]
            return ast.Call(func=ast.Name(id="isinstance", ctx=ast.Load()), args=[s(), cls], keywords=[])
        sub_binds: list[ast.stmt] = []
        conds = [_cond(subj, p, sub_binds) for p in pat.patterns]
        if sub_binds or any(c is None for c in conds):
            raise _Unsupported("captures / wildcard inside an or-pattern")
        return ast.BoolOp(op=ast.Or(), values=conds)  # type: ignore[arg-type]
    raise _Unsupported(type(pat).__name__)


def _rewrite(m: ast.Match, counter: list[int]) -> list[ast.stmt] | None:
    pre: list[ast.stmt] = []
    subj: ast.AST = m.subject
    if isinstance(subj, ast.Tuple) and not any(isinstance(e, ast.Starred) for e in subj.elts):
        # a tuple display: each element is evaluated once, in order
        elts: list[ast.AST] = []
        for e in subj.elts:
            if _simple(e) or isinstance(e, ast.Constant):
                elts.append(e)
            else:
                counter[0] += 1
                tmp = f"_match_subject_{counter[0]}"
                pre.append(ast.Assign(targets=[ast.Name(id=tmp, ctx=ast.Store())], value=e))
                elts.append(ast.Name(id=tmp, ctx=ast.Load()))
        subj = ast.Tuple(elts=elts, ctx=ast.Load())
    elif not _simple(subj):
        counter[0] += 1
        tmp = f"_match_subject_{counter[0]}"
        pre.append(ast.Assign(targets=[ast.Name(id=tmp, ctx=ast.Store())], value=subj))
        subj = ast.Name(id=tmp, ctx=ast.Load())
    chain: list[tuple[ast.AST | None, list[ast.stmt], ast.match_case]] = []

    def captures(p: ast.AST) -> bool:
        return any((isinstance(x, ast.MatchAs) and x.name is not None) or (isinstance(x, ast.MatchStar) and x.name is not None) for x in ast.walk(p))

    cases: list[ast.match_case] = []
    for case in m.cases:
        if isinstance(case.pattern, ast.MatchOr) and captures(case.pattern):
            # alternatives that capture: one arm each, same guard and body (first match wins either way)
            for alt in case.pattern.patterns:
                import copy as _copy

                cases.append(ast.match_case(pattern=alt, guard=_copy.deepcopy(case.guard), body=_copy.deepcopy(case.body)))
                ast.copy_location(cases[-1].pattern, case.pattern) if not hasattr(alt, "lineno") else None
        else:
            cases.append(case)
    try:
        for case in cases:
            binds: list[ast.stmt] = []
            c = _cond(subj, case.pattern, binds)
            if case.guard is not None:
                guard = case.guard
                if binds:
                    # the guard reads captured names before the body binds them: they stand for what they capture
                    cap = {b.targets[0].id: b.value for b in binds if isinstance(b, ast.Assign) and isinstance(b.targets[0], ast.Name)}  # type: ignore[attr-defined]

                    class G(ast.NodeTransformer):
                        def visit_Name(self, n: ast.Name):  # noqa: N802
                            if isinstance(n.ctx, ast.Load) and n.id in cap:
                                return ast.parse(ast.unparse(cap[n.id]), mode="eval").body
                            return n

                    guard = G().visit(ast.parse(ast.unparse(guard), mode="eval").body)
                c = guard if c is None else ast.BoolOp(op=ast.And(), values=[c, guard])
            if c is not None:
                for x in ast.walk(c):
                    if not hasattr(x, "lineno"):
                        ast.copy_location(x, case.pattern)
                ast.fix_missing_locations(c)
            # a captured name that the body only reads stands for what it captured (`case ListValue(items=items)` -> value.items)
            body = list(case.body)
            keep: list[ast.stmt] = []
            for b in binds:
                nm = b.targets[0].id  # type: ignore[attr-defined]
                stored = any(isinstance(x, ast.Name) and x.id == nm and isinstance(x.ctx, (ast.Store, ast.Del)) for st_ in body for x in ast.walk(st_)) or any(isinstance(x, ast.Name) and x.id == nm and isinstance(x.ctx, (ast.Store, ast.Del)) for k_ in keep for x in ast.walk(k_))
                later_binds = binds[binds.index(b) + 1:]
                if stored or not _simple(b.value) or any(isinstance(x, ast.Name) and x.id == nm for lb in later_binds for x in ast.walk(lb)):  # type: ignore[attr-defined]
                    keep.append(b)
                    continue
                txt = ast.unparse(b.value)  # type: ignore[attr-defined]

                class S(ast.NodeTransformer):
                    def visit_Name(self, n: ast.Name):  # noqa: N802
                        if isinstance(n.ctx, ast.Load) and n.id == nm:
                            return ast.copy_location(ast.parse(txt, mode="eval").body, n)
                        return n

                body = [ast.fix_missing_locations(S().visit(st_)) for st_ in body]
            chain.append((c, keep + body, case))
            if c is None:
                break  # irrefutable: later cases are unreachable
    except _Unsupported:
        return None
    node: list[ast.stmt] = []
    for c, body, case in reversed(chain):
        if c is None:
            node = body
        else:
            iff = ast.If(test=c, body=body, orelse=node)
            ast.copy_location(iff, case.pattern)  # each test keeps the position of its case
            node = [iff]
    out = pre + node
    for o in out:
        if not hasattr(o, "lineno"):
            ast.copy_location(o, m)
        ast.fix_missing_locations(o)
    return out or [ast.copy_location(ast.Pass(), m)]


def desugar_matches(tree: ast.AST) -> int:
    """rewrite every supported `match` in `tree` in place; returns how many were rewritten"""
    counter = [0]
    n = [0]

    def walk(stmts: list[ast.stmt]) -> list[ast.stmt]:
        out: list[ast.stmt] = []
        for st in stmts:
            for f in ("body", "orelse", "finalbody"):
                v = getattr(st, f, None)
                if isinstance(v, list) and v and isinstance(v[0], ast.stmt):
                    setattr(st, f, walk(v))
            if isinstance(st, ast.Try):
                for h in st.handlers:
                    h.body = walk(h.body)
            if isinstance(st, ast.Match):
                for case in st.cases:
                    case.body = walk(case.body)
                r = _rewrite(st, counter)
                if r is not None:
                    n[0] += 1
                    out.extend(r)
                    continue
            out.append(st)
        return out

    tree.body = walk(tree.body)  # type: ignore[attr-defined]
    return n[0]
