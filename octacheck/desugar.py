"""`match` read as the if/elif chain it abbreviates.

The pinned tree has no `match` statement; every rule reads dispatch as `if isinstance(x, C): ... elif ...` / `if x == "k":`.
A maintainer may rewrite such a chain as `match x: case C(): ...` at any time without changing behaviour. The source model
therefore rewrites - in its own parsed copy, never on disk - every `match` whose patterns fall in the subset below into the
equivalent chain before any rule runs; anything else is left as it is (the rules then fail closed on it, as before).

    case C():                      isinstance(s, C)                 (also builtin bool(), int(), str() ...)
    case C(a=P, b=Q):              isinstance(s, C) and <s.a matches P> and <s.b matches Q>
    case A() | B():                isinstance(s, A | B)
    case 1 | "x" | X.Y:            s == 1 or s == "x" or s == X.Y
    case None / True / False:      s is None / True / False
    case _:                        else
    case name:                     else, with `name = s` first
    case P as name:                <P>, with `name = s` first in the body
    case P if guard:               <P> and guard

The subject is evaluated once: a name or dotted name is used as it is, anything else is bound to a temporary first.
"""
from __future__ import annotations

import ast


class _Unsupported(Exception):
    pass


def _simple(e: ast.AST) -> bool:
    return isinstance(e, ast.Name) or (isinstance(e, ast.Attribute) and _simple(e.value))


def _cond(subj: ast.AST, pat: ast.AST, binds: list[ast.stmt]) -> ast.AST | None:
    """condition under which `subj` matches `pat` (None = always); capture bindings are appended to `binds`"""
    def s() -> ast.AST:
        return ast.parse(ast.unparse(subj), mode="eval").body

    if isinstance(pat, ast.MatchAs):
        inner = None if pat.pattern is None else _cond(subj, pat.pattern, binds)
        if pat.name is not None:
            binds.append(ast.Assign(targets=[ast.Name(id=pat.name, ctx=ast.Store())], value=s()))
        return inner
    if isinstance(pat, ast.MatchSingleton):
        return ast.Compare(left=s(), ops=[ast.Is()], comparators=[ast.Constant(value=pat.value)])
    if isinstance(pat, ast.MatchValue):
        return ast.Compare(left=s(), ops=[ast.Eq()], comparators=[pat.value])
    if isinstance(pat, ast.MatchClass):
        if pat.patterns:
            raise _Unsupported("positional sub-patterns")
        cond: ast.AST = ast.Call(func=ast.Name(id="isinstance", ctx=ast.Load()), args=[s(), pat.cls], keywords=[])
        parts = [cond]
        for attr, sub in zip(pat.kwd_attrs, pat.kwd_patterns):
            c = _cond(ast.Attribute(value=s(), attr=attr, ctx=ast.Load()), sub, binds)
            if c is not None:
                parts.append(c)
        return parts[0] if len(parts) == 1 else ast.BoolOp(op=ast.And(), values=parts)
    if isinstance(pat, ast.MatchOr):
        if all(isinstance(p, ast.MatchClass) and not p.patterns and not p.kwd_patterns for p in pat.patterns):
            cls: ast.AST = pat.patterns[0].cls  # type: ignore[union-attr]
            for p in pat.patterns[1:]:
                cls = ast.BinOp(left=cls, op=ast.BitOr(), right=p.cls)  # type: ignore[union-attr]
            return ast.Call(func=ast.Name(id="isinstance", ctx=ast.Load()), args=[s(), cls], keywords=[])
        sub_binds: list[ast.stmt] = []
        conds = [_cond(subj, p, sub_binds) for p in pat.patterns]
        if sub_binds or any(c is None for c in conds):
            raise _Unsupported("captures / wildcard inside an or-pattern")
        return ast.BoolOp(op=ast.Or(), values=conds)  # type: ignore[arg-type]
    raise _Unsupported(type(pat).__name__)


def _rewrite(m: ast.Match, counter: list[int]) -> list[ast.stmt] | None:
    pre: list[ast.stmt] = []
    subj: ast.AST = m.subject
    if not _simple(subj):
        counter[0] += 1
        tmp = f"_match_subject_{counter[0]}"
        pre.append(ast.Assign(targets=[ast.Name(id=tmp, ctx=ast.Store())], value=subj))
        subj = ast.Name(id=tmp, ctx=ast.Load())
    chain: list[tuple[ast.AST | None, list[ast.stmt], ast.match_case]] = []
    try:
        for case in m.cases:
            binds: list[ast.stmt] = []
            c = _cond(subj, case.pattern, binds)
            if case.guard is not None:
                if binds:
                    raise _Unsupported("guard on a capturing pattern")
                c = case.guard if c is None else ast.BoolOp(op=ast.And(), values=[c, case.guard])
            if c is not None:
                for x in ast.walk(c):
                    if not hasattr(x, "lineno"):
                        ast.copy_location(x, case.pattern)
                ast.fix_missing_locations(c)
            chain.append((c, binds + list(case.body), case))
            if c is None:
                break  # irrefutable: later cases are unreachable
    except _Unsupported:
        return None
    node: list[ast.stmt] = []
    for c, body, case in reversed(chain):
        if c is None:
            node = body
        else:
            iff = ast.If(test=c, body=body, orelse=node)
            ast.copy_location(iff, case.pattern)  # each test keeps the position of its case
            node = [iff]
    out = pre + node
    for o in out:
        if not hasattr(o, "lineno"):
            ast.copy_location(o, m)
        ast.fix_missing_locations(o)
    return out or [ast.copy_location(ast.Pass(), m)]


def desugar_matches(tree: ast.AST) -> int:
    """rewrite every supported `match` in `tree` in place; returns how many were rewritten"""
    counter = [0]
    n = [0]

    def walk(stmts: list[ast.stmt]) -> list[ast.stmt]:
        out: list[ast.stmt] = []
        for st in stmts:
            for f in ("body", "orelse", "finalbody"):
                v = getattr(st, f, None)
                if isinstance(v, list) and v and isinstance(v[0], ast.stmt):
                    setattr(st, f, walk(v))
            if isinstance(st, ast.Try):
                for h in st.handlers:
                    h.body = walk(h.body)
            if isinstance(st, ast.Match):
                for case in st.cases:
                    case.body = walk(case.body)
                r = _rewrite(st, counter)
                if r is not None:
                    n[0] += 1
                    out.extend(r)
                    continue
            out.append(st)
        return out

    tree.body = walk(tree.body)  # type: ignore[attr-defined]
    return n[0]
