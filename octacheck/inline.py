"""Virtual inlining of extracted helpers.

Several rules read one function as a whole (the grammar builder, a tool's execute, a repair loop). An "extract method"
refactoring moves part of that function into a private helper of the same class or module and leaves a call behind; the
behaviour is unchanged but the construct the rule looks for is now one call away. `inline_helpers` returns a copy of a
function in which such calls are replaced by the helper's body, so that the rule sees the same statements as before.

Only statement-position calls are inlined:

    x = self._h(a, b)          a, b = self._h(...)          self._h(...)          x = _h(...)          return _h(...)

and only when the helper is not a generator, not async, has no *args/**kwargs and no nested functions, and every argument can
be bound by position or keyword. A helper with early returns is first rewritten into an if/else tree without `return`
(`eliminate_returns`: the statements after an `if` that returns are moved into the branches that fall through); a return
inside a loop, or inside a try/with whose other paths fall through, is not supported and the call is left alone. The inlined
text is

    <param> = <arg>            (omitted when the argument is the same name; a parameter the helper never rebinds and that is
                                passed a plain name is substituted instead)
    <body without the return>
    <targets> = <returned expression>

Helper locals that clash with names of the caller are suffixed. Nodes keep their original line numbers (those of the helper),
so reports still point at real source lines. The result is a view for analysis only; nothing is written anywhere.
"""
from __future__ import annotations

import ast
import copy
from dataclasses import replace
from typing import Callable

from .source import FuncInfo, walk_no_nested


def clone(n):
    """deep copy of an AST (sub)tree that does not follow the `_parent` back-links the source model adds (copy.deepcopy would
    copy the whole module through them); positions and the `_qualname` mark of nested functions are kept"""
    if isinstance(n, ast.AST):
        new = type(n)()
        for f in n._fields:
            if hasattr(n, f):
                setattr(new, f, clone(getattr(n, f)))
        for a in ("lineno", "col_offset", "end_lineno", "end_col_offset", "_qualname", "_inline_block", "_was_return", "_caller_stmt", "_implicit_raise"):
            if hasattr(n, a):
                setattr(new, a, getattr(n, a))
        return new
    if isinstance(n, list):
        return [clone(x) for x in n]
    return n


_KNOWN: dict[str, dict[str, str]] | None = None


def body_digest(fn: ast.AST) -> str:
    """digest of a function's body without its docstring (names of the function itself and positions do not matter)"""
    import hashlib

    body = [b for b in fn.body if not (isinstance(b, ast.Expr) and isinstance(b.value, ast.Constant) and isinstance(b.value.value, str))]  # type: ignore[attr-defined]
    txt = ast.dump(ast.Module(body=body, type_ignores=[]), include_attributes=False) + ast.dump(fn.args, include_attributes=False)  # type: ignore[attr-defined]
    return hashlib.sha1(txt.encode("utf-8")).hexdigest()[:16]


def known_functions() -> dict[str, dict[str, str]]:
    """module name -> qualified names of the functions that existed when the rules were confirmed (tools/mkknown.py)"""
    global _KNOWN
    if _KNOWN is None:
        import json
        import os

        path = os.path.join(os.path.dirname(os.path.abspath(__file__)), "known_functions.json")
        try:
            with open(path, encoding="utf-8") as fh:
                _KNOWN = {k: (dict(v) if isinstance(v, dict) else {q: "" for q in v}) for k, v in json.load(fh).items()}
        except OSError:
            _KNOWN = {}
    return _KNOWN


def _local_names(fn: ast.AST) -> set[str]:
    out: set[str] = set()
    for n in walk_no_nested(fn):
        if isinstance(n, ast.Name) and isinstance(n.ctx, (ast.Store, ast.Del)):
            out.add(n.id)
        elif isinstance(n, ast.arg):
            out.add(n.arg)
        elif isinstance(n, ast.ExceptHandler) and n.name:
            out.add(n.name)
    for a in ast.walk(fn.args):  # type: ignore[attr-defined]
        if isinstance(a, ast.arg):
            out.add(a.arg)
    return out


def _all_names(fn: ast.AST) -> set[str]:
    return {n.id for n in ast.walk(fn) if isinstance(n, ast.Name)} | _local_names(fn)


def is_generator(h: ast.AST) -> bool:
    return any(isinstance(n, (ast.Yield, ast.YieldFrom)) for n in walk_no_nested(h))


def inlinable(h: ast.AST, allow_generator: bool = False, allow_cm: bool = False) -> bool:
    if not isinstance(h, ast.FunctionDef):
        return False
    if is_generator(h):
        # only as the eager list it yields (see _expand), and only in the plain statement forms `yield e` / `yield from it`
        if not allow_generator:
            return False
        for n in walk_no_nested(h):
            if isinstance(n, (ast.Yield, ast.YieldFrom)) and not isinstance(getattr(n, "_parent", None), ast.Expr):
                return False
            if isinstance(n, ast.Return) and n.value is not None:
                return False
    a = h.args
    if a.vararg or a.kwarg or a.posonlyargs:
        return False
    def plain(d: ast.AST) -> bool:
        if isinstance(d, ast.Name) and d.id in ("staticmethod", "classmethod"):
            return True
        # @contextmanager is read through only where the helper is used as `with h(..) as v:` (the caller says so)
        return allow_cm and ast.unparse(d).split(".")[-1] == "contextmanager"

    if any(not plain(d) for d in h.decorator_list):
        return False  # a decorator (cache, property, click command ...) changes what a call does: never read through it
    if any(isinstance(n, (ast.Await, ast.Global, ast.Nonlocal)) for n in walk_no_nested(h)):
        return False
    if any(isinstance(n, (ast.FunctionDef, ast.AsyncFunctionDef, ast.ClassDef)) for n in ast.walk(h) if n is not h):
        return False  # closures over helper locals: renaming would have to follow them
    # lambdas are fine (the renaming visits their bodies) unless one of their own parameters shadows a name of the helper
    own = _local_names(h)
    for n in ast.walk(h):
        if isinstance(n, ast.Lambda) and ({a.arg for a in ast.walk(n.args) if isinstance(a, ast.arg)} & own):
            return False
    return True


def single_exit(h: ast.AST) -> bool:
    if not inlinable(h):
        return False
    rets = [n for n in walk_no_nested(h) if isinstance(n, ast.Return)]
    return len(rets) <= 1 and (not rets or h.body[-1] is rets[0])  # type: ignore[attr-defined]


class _Unsupported(Exception):
    pass


def _has_return(st: ast.AST) -> bool:
    """does the statement contain a `return` of the HELPER (statements of the caller that were placed inside it are opaque)"""
    if getattr(st, "_caller_stmt", False):
        return False
    if isinstance(st, ast.Return):
        return True
    stack = list(ast.iter_child_nodes(st))
    while stack:
        n = stack.pop()
        if getattr(n, "_caller_stmt", False) or isinstance(n, (ast.FunctionDef, ast.AsyncFunctionDef, ast.Lambda, ast.ClassDef)):
            continue
        if isinstance(n, ast.Return):
            return True
        stack.extend(ast.iter_child_nodes(n))
    return False


class _NeedBlock(Exception):
    pass


def eliminate_returns(stmts: list[ast.stmt], result: Callable[[ast.AST | None, ast.stmt], list[ast.stmt]]) -> tuple[list[ast.stmt], bool]:
    """rewrite a helper body so that it has no `return`, as an if/else tree: `return v` becomes result(v); the statements after
    an `if` one of whose branches always returns move into the other branch (nothing is duplicated, nothing leaves or enters a
    try). Returns the statements and whether every path through them ends in a former return or a raise. Raises _NeedBlock
    when the tree form does not exist (a return nested in a statement that can also fall through into more code)."""
    out: list[ast.stmt] = []
    for i, st in enumerate(stmts):
        if isinstance(st, ast.Return):
            out += result(st.value, st)
            return out, True
        if isinstance(st, ast.Raise):
            out.append(st)
            return out, True
        if not _has_return(st):
            out.append(st)
            continue
        rest = stmts[i + 1:]
        if isinstance(st, ast.If):
            b, bx = eliminate_returns(list(st.body), result)
            o, ox = eliminate_returns(list(st.orelse), result)
            if (bx and ox) or not rest:
                new = ast.If(test=st.test, body=b or [ast.copy_location(ast.Pass(), st)], orelse=o)
                out.append(ast.copy_location(new, st))
                return out, bx and ox
            if bx or ox:
                r, rx = eliminate_returns(rest, result)
                new = ast.If(test=st.test, body=(b if bx else b + r) or [ast.copy_location(ast.Pass(), st)], orelse=(o + r if bx else o))
                out.append(ast.copy_location(new, st))
                return out, rx
            raise _NeedBlock()
        if isinstance(st, ast.Try) and not st.finalbody and not st.orelse:
            b, bx = eliminate_returns(list(st.body), result)
            hs = []
            allx = bx
            for h in st.handlers:
                hb, hx = eliminate_returns(list(h.body), result)
                allx = allx and hx
                nh = ast.ExceptHandler(type=h.type, name=h.name, body=hb or [ast.copy_location(ast.Pass(), h)])
                hs.append(ast.copy_location(nh, h))
            if allx or not rest:
                out.append(ast.copy_location(ast.Try(body=b, handlers=hs, orelse=[], finalbody=[]), st))
                return out, allx
            raise _NeedBlock()
        if isinstance(st, ast.With):
            b, bx = eliminate_returns(list(st.body), result)
            if bx or not rest:
                out.append(ast.copy_location(ast.With(items=st.items, body=b), st))
                return out, bx
            raise _NeedBlock()
        raise _NeedBlock()
    return out, False


def block_form(stmts: list[ast.stmt], result: Callable[[ast.AST | None, ast.stmt], list[ast.stmt]]) -> list[ast.stmt]:
    """the general form: the helper body inside a block that a `break` leaves,

        while True:                      # marked `_inline_block`: runs exactly once
            <body, each `return v` replaced by result(v); break>
            result(None)                 # when the body can fall off its end
            break

    which keeps every statement once, in its own exception scope, and lets the CFG builder route each former return to the
    code after the call (a `while True` has no false edge). Not supported (raises _Unsupported): a return inside a loop of
    the helper itself (the break would leave that loop instead), inside match, or in a try/finally."""
    def conv(body: list[ast.stmt]) -> list[ast.stmt]:
        out: list[ast.stmt] = []
        for st in body:
            if isinstance(st, ast.Return):
                out += result(st.value, st)
                out.append(ast.copy_location(ast.Break(), st))
                break
            if not _has_return(st):
                out.append(st)
                continue
            if isinstance(st, ast.If):
                out.append(ast.copy_location(ast.If(test=st.test, body=conv(list(st.body)) or [ast.copy_location(ast.Pass(), st)], orelse=conv(list(st.orelse))), st))
            elif isinstance(st, ast.Try) and not st.finalbody:
                hs = [ast.copy_location(ast.ExceptHandler(type=h.type, name=h.name, body=conv(list(h.body)) or [ast.copy_location(ast.Pass(), h)]), h) for h in st.handlers]
                out.append(ast.copy_location(ast.Try(body=conv(list(st.body)), handlers=hs, orelse=conv(list(st.orelse)), finalbody=[]), st))
            elif isinstance(st, ast.With):
                out.append(ast.copy_location(ast.With(items=st.items, body=conv(list(st.body))), st))
            else:
                raise _Unsupported(f"return inside {type(st).__name__}")
        return out

    last = stmts[-1] if stmts else None
    if isinstance(last, ast.While) and isinstance(last.test, ast.Constant) and bool(last.test.value) and not last.orelse and _has_return(last) and not any(_has_return(x) for x in stmts[:-1]):
        # the helper ends in its own `while True:` and only leaves it by returning: that loop IS the block
        def conv_loop(body: list[ast.stmt]) -> list[ast.stmt]:
            out: list[ast.stmt] = []
            for st in body:
                if isinstance(st, ast.Return):
                    out += result(st.value, st)
                    out.append(ast.copy_location(ast.Break(), st))
                    break
                if isinstance(st, ast.Break):
                    out += result(None, st)  # leaving the loop falls off the end of the helper
                    out.append(st)
                    break
                if isinstance(st, ast.If):
                    out.append(ast.copy_location(ast.If(test=st.test, body=conv_loop(list(st.body)) or [ast.copy_location(ast.Pass(), st)], orelse=conv_loop(list(st.orelse))), st))
                elif isinstance(st, ast.Try) and not st.finalbody:
                    hs = [ast.copy_location(ast.ExceptHandler(type=h.type, name=h.name, body=conv_loop(list(h.body)) or [ast.copy_location(ast.Pass(), h)]), h) for h in st.handlers]
                    out.append(ast.copy_location(ast.Try(body=conv_loop(list(st.body)), handlers=hs, orelse=conv_loop(list(st.orelse)), finalbody=[]), st))
                elif isinstance(st, ast.With):
                    out.append(ast.copy_location(ast.With(items=st.items, body=conv_loop(list(st.body))), st))
                elif _has_return(st):
                    raise _Unsupported(f"return inside {type(st).__name__} inside the helper's loop")
                else:
                    out.append(st)
            return out

        loop = ast.While(test=last.test, body=conv_loop(list(last.body)), orelse=[])
        ast.copy_location(loop, last)
        loop._inline_block = True  # type: ignore[attr-defined]  # (R20.1b: its termination is the helper's own business, judged there)
        return list(stmts[:-1]) + [loop]
    body = conv(stmts)
    if not _always_leaves_block(body):
        at = stmts[-1] if stmts else ast.Pass()
        body += result(None, at) + [ast.copy_location(ast.Break(), at)]
    blk = ast.While(test=ast.Constant(value=True), body=body, orelse=[])
    blk._inline_block = True  # type: ignore[attr-defined]
    return [blk]


def _always_leaves_block(stmts: list[ast.stmt]) -> bool:
    if not stmts:
        return False
    last = stmts[-1]
    if isinstance(last, (ast.Break, ast.Raise, ast.Return, ast.Continue)):
        return True
    if isinstance(last, ast.If):
        return _always_leaves_block(last.body) and _always_leaves_block(last.orelse)
    if isinstance(last, ast.Try) and not last.finalbody:
        return _always_leaves_block(last.body + last.orelse) and all(_always_leaves_block(h.body) for h in last.handlers)
    if isinstance(last, ast.With):
        return _always_leaves_block(last.body)
    return False


def _always_leaves(stmts: list[ast.stmt]) -> bool:
    if not stmts:
        return False
    last = stmts[-1]
    if isinstance(last, (ast.Return, ast.Raise)):
        return True
    if isinstance(last, ast.If):
        return _always_leaves(last.body) and _always_leaves(last.orelse)
    if isinstance(last, ast.Try) and not last.finalbody:
        return _always_leaves(last.body + last.orelse) and all(_always_leaves(h.body) for h in last.handlers)
    if isinstance(last, ast.With):
        return _always_leaves(last.body)
    return False



def _helper_of(fi: FuncInfo, call: ast.Call) -> FuncInfo | None:
    m = fi.module
    f = call.func
    if isinstance(f, ast.Name):
        c = [x for x in m.functions.values() if x.name == f.id and x.cls is None and x.parent_func is None]
    elif isinstance(f, ast.Attribute) and isinstance(f.value, ast.Name) and f.value.id in ("self", "cls") and fi.cls:
        c = [x for x in m.functions.values() if x.name == f.attr and x.cls == fi.cls and x.parent_func is None]
    else:
        return None
    if len(c) != 1 or c[0].node is fi.node:
        return None
    return c[0]


def _none_test(t: ast.AST, var: str) -> bool | None:
    """`var is not None` -> True, `var is None` -> False (possibly under `not`), anything else -> None"""
    neg = False
    while isinstance(t, ast.UnaryOp) and isinstance(t.op, ast.Not):
        t, neg = t.operand, not neg
    if isinstance(t, ast.Compare) and len(t.ops) == 1 and isinstance(t.left, ast.Name) and t.left.id == var and isinstance(t.comparators[0], ast.Constant) and t.comparators[0].value is None and isinstance(t.ops[0], (ast.Is, ast.IsNot)):
        return isinstance(t.ops[0], ast.IsNot) != neg
    return None


def _const_test(t: ast.AST, var: str) -> tuple[str, bool] | None:
    """`var is C` / `var == C` -> (text of C, True); `var is not C` / `var != C` -> (text of C, False), C a non-None literal or a
    dotted constant such as an enum member; anything else -> None"""
    neg = False
    while isinstance(t, ast.UnaryOp) and isinstance(t.op, ast.Not):
        t, neg = t.operand, not neg
    if isinstance(t, ast.Compare) and len(t.ops) == 1 and isinstance(t.left, ast.Name) and t.left.id == var and isinstance(t.ops[0], (ast.Is, ast.IsNot, ast.Eq, ast.NotEq)):
        c = t.comparators[0]
        if (isinstance(c, ast.Constant) and c.value is not None) or _dotted_const(c):
            return ast.unparse(c), isinstance(t.ops[0], (ast.Is, ast.Eq)) != neg
    return None


def _dotted_const(c: ast.AST) -> bool:
    return isinstance(c, ast.Attribute) and isinstance(c.value, ast.Name) and c.attr.isupper()


def _truthiness(v: ast.AST) -> bool | None:
    """truth value of the returned expression when it is certain: a literal, an empty / non-empty display"""
    if isinstance(v, ast.Constant):
        return bool(v.value)
    if isinstance(v, (ast.List, ast.Tuple, ast.Set)):
        if not v.elts:
            return False
        return True if any(not isinstance(e, ast.Starred) for e in v.elts) else None
    if isinstance(v, ast.Dict):
        if not v.keys:
            return False
        return True if any(k is not None for k in v.keys) else None
    if isinstance(v, ast.IfExp):
        a, b = _truthiness(v.body), _truthiness(v.orelse)
        return a if a is not None and a == b else None
    return None


def _equals_const(v: ast.AST, const_text: str) -> bool | None:
    """is the returned expression `v` certainly equal / certainly different from the constant? (None: cannot tell)"""
    if isinstance(v, ast.IfExp):
        a, b = _equals_const(v.body, const_text), _equals_const(v.orelse, const_text)
        return a if a is not None and a == b else None
    if isinstance(v, ast.Constant) or _dotted_const(v):
        same = ast.unparse(v) == const_text
        if same:
            return True
        # a different literal, or a different member of the same constant family
        try:
            ct = ast.parse(const_text, mode="eval").body
        except SyntaxError:
            return None
        if isinstance(v, ast.Constant) and isinstance(ct, ast.Constant):
            return False
        if _dotted_const(v) and _dotted_const(ct) and ast.unparse(v.value) == ast.unparse(ct.value):  # type: ignore[attr-defined]
            return False
    return None


def _never_none(fi: FuncInfo, hn: ast.AST, v: ast.AST, depth: int = 0) -> bool:
    """syntactically certain not to be None: a non-None literal, a display, an f-string, a call of a function of the same module
    whose return annotation excludes None, or a helper local bound once to such an expression"""
    if isinstance(v, ast.Constant):
        return v.value is not None
    if isinstance(v, (ast.JoinedStr, ast.Dict, ast.List, ast.Tuple, ast.Set, ast.ListComp, ast.DictComp, ast.SetComp)):
        return True
    if isinstance(v, ast.Call):
        h = _helper_of(fi, v)
        if h is None:
            return False
        ann = getattr(h.node, "returns", None)
        if ann is None:
            return False
        txt = ast.unparse(ann)
        return "None" not in txt and "Optional" not in txt and "Any" != txt and "object" != txt
    if isinstance(v, ast.Name) and depth < 3:
        ds = [n for n in ast.walk(hn) if isinstance(n, ast.Assign) and len(n.targets) == 1 and isinstance(n.targets[0], ast.Name) and n.targets[0].id == v.id]
        stores = [n for n in ast.walk(hn) if isinstance(n, ast.Name) and n.id == v.id and isinstance(n.ctx, ast.Store)]
        return len(ds) == 1 and len(stores) == 1 and _never_none(fi, hn, ds[0].value, depth + 1)
    return False


def _record_display(fi: FuncInfo, val: ast.AST) -> ast.AST:
    """`R(a, b, c=x)` with R a NamedTuple class of the module that the pinned tree does not have, unpacked at once by the caller:
    the tuple display `(a, b, x)` in field order, class defaults filled in"""
    if not (isinstance(val, ast.Call) and isinstance(val.func, ast.Name)):
        return val
    ci = fi.module.classes.get(val.func.id)
    if ci is None or not any(ast.unparse(b).split(".")[-1] == "NamedTuple" for b in ci.node.bases):
        return val
    known = known_functions().get(fi.module.name) or {}
    if val.func.id in set(str(known.get("<classes>", "")).split()):
        return val
    from .records import _fields_and_defaults

    fields, defaults = _fields_and_defaults(ci.node)
    if any(isinstance(a_, ast.Starred) for a_ in val.args) or any(k.arg is None for k in val.keywords) or len(val.args) > len(fields):
        return val
    vals: dict[str, ast.AST] = dict(zip(fields, val.args))
    vals.update({k.arg: k.value for k in val.keywords})  # type: ignore[misc]
    for f in fields:
        if f not in vals and f in defaults:
            vals[f] = clone(defaults[f])
    if set(vals) != set(fields):
        return val
    return ast.copy_location(ast.Tuple(elts=[vals[f] for f in fields], ctx=ast.Load()), val)


def _dominates(fn: ast.AST, a: ast.stmt, b: ast.stmt) -> bool:
    """structured dominance: statement a precedes, in the same or an enclosing block, the statement that contains (or is) b.
    When b is not found in fn (the caller works on a detached copy) the positions decide as before."""
    def path_to(body: list[ast.stmt], acc: list[tuple[list[ast.stmt], int]]) -> list[tuple[list[ast.stmt], int]] | None:
        for i, s_ in enumerate(body):
            here = acc + [(body, i)]
            if s_ is b:
                return here
            if isinstance(s_, (ast.FunctionDef, ast.AsyncFunctionDef, ast.ClassDef)):
                continue
            for f in ("body", "orelse", "finalbody"):
                sub = getattr(s_, f, None)
                if isinstance(sub, list) and sub and isinstance(sub[0], ast.stmt):
                    r = path_to(sub, here)
                    if r is not None:
                        return r
            for hd_ in getattr(s_, "handlers", []) or []:
                r = path_to(hd_.body, here)
                if r is not None:
                    return r
        return None

    p = path_to(getattr(fn, "body", []), [])
    if p is None:
        return True
    return any(a is blk[j] for blk, i in p for j in range(i))


def _expand(fi: FuncInfo, caller_names: set[str], st: ast.stmt, select: Callable[[FuncInfo, ast.Call, ast.stmt], bool], follow_if: ast.If | None = None, consumed: list[bool] | None = None) -> list[ast.stmt] | None:
    """`follow_if`: the caller's next statement when it is `if <target> is [not] None: ...` on the single name the call is assigned
    to. It is then threaded into the inlined body - placed right after each former return, reduced to the branch that the
    returned expression selects when that is certain (a literal None, or an expression that is never None) - and reported as
    consumed. This keeps the correlation between WHAT the helper returned and what the caller does with it visible to
    path-insensitive analyses."""
    if isinstance(st, ast.Assign) and isinstance(st.value, ast.Call):
        call, targets = st.value, st.targets
    elif isinstance(st, ast.AnnAssign) and isinstance(st.value, ast.Call):
        call, targets = st.value, [st.target]
    elif isinstance(st, ast.Expr) and isinstance(st.value, ast.Call):
        call, targets = st.value, []
    elif isinstance(st, ast.Return) and isinstance(st.value, ast.Call):
        call, targets = st.value, []
    else:
        return None
    h = _helper_of(fi, call)
    st_orig = st
    eager = getattr(st, "_eager_ok", False)
    if h is None or not inlinable(h.node, allow_generator=eager, allow_cm=getattr(st, "_cm_ok", False)) or not select(h, call, st):
        return None
    gen = is_generator(h.node)
    if gen and not (eager and len(targets) == 1 and isinstance(targets[0], ast.Name)):
        return None
    hn: ast.FunctionDef = clone(h.node)  # type: ignore[assignment]
    if gen:
        # a generator that is consumed at once (list(h(..)), x.extend(h(..)), sep.join(h(..)) - the caller marked the hoisted
        # temporary) is read as the list it yields: `yield e` -> acc.append(e), `yield from it` -> acc.extend(it), `return` -> done
        acc = targets[0].id
        yhook = getattr(st, "_yield_body", None)  # (loop variable, condition on it, statements to run when it holds)
        if yhook is not None and any(isinstance(n, ast.YieldFrom) for n in walk_no_nested(hn)):
            return None

        class Y(ast.NodeTransformer):
            def visit_Expr(self, n: ast.Expr):  # noqa: N802
                v = n.value
                if isinstance(v, ast.Yield) and yhook is not None:
                    var, cond, then = yhook
                    tgt = ast.Name(id=var, ctx=ast.Store()) if isinstance(var, str) else clone(var)
                    tgt._caller_stmt = True  # type: ignore[attr-defined]
                    a = ast.Assign(targets=[tgt], value=v.value if v.value is not None else ast.Constant(value=None))
                    if isinstance(tgt, ast.Name) and tgt.id == "_":
                        a = ast.Expr(value=a.value)  # (`for _ in gen()`: the item is only evaluated)
                    elif ast.unparse(tgt) == ast.unparse(a.value):
                        a = ast.Pass()  # yields its locals into targets of the same names: nothing to bind
                    if cond is None:
                        i = ast.If(test=ast.Constant(value=True), body=clone(list(then)), orelse=[])
                        body_ = i.body
                        for b_ in body_:
                            b_._caller_stmt = True  # type: ignore[attr-defined]
                        return [ast.fix_missing_locations(ast.copy_location(a, n))] + [ast.fix_missing_locations(ast.copy_location(b_, n)) for b_ in body_ if not isinstance(b_, ast.Pass)]
                    i = ast.If(test=clone(cond), body=clone(list(then)), orelse=[])
                    i._caller_stmt = True  # type: ignore[attr-defined]  # (its `return` is the caller's, not the helper's)
                    return [ast.fix_missing_locations(ast.copy_location(a, n)), ast.fix_missing_locations(ast.copy_location(i, n))]
                if isinstance(v, ast.Yield):
                    e = ast.Expr(value=ast.Call(func=ast.Attribute(value=ast.Name(id=acc, ctx=ast.Load()), attr="append", ctx=ast.Load()), args=[v.value if v.value is not None else ast.Constant(value=None)], keywords=[]))
                    return ast.fix_missing_locations(ast.copy_location(e, n))
                if isinstance(v, ast.YieldFrom):
                    e = ast.Expr(value=ast.Call(func=ast.Attribute(value=ast.Name(id=acc, ctx=ast.Load()), attr="extend", ctx=ast.Load()), args=[v.value], keywords=[]))
                    return ast.fix_missing_locations(ast.copy_location(e, n))
                return n

        hn = Y().visit(hn)
        if yhook is None:
            init = ast.Assign(targets=[ast.Name(id=acc, ctx=ast.Store())], value=ast.List(elts=[], ctx=ast.Load()))
            ast.fix_missing_locations(ast.copy_location(init, st))
            body0 = [b for b in hn.body]
            doc_first = body0 and isinstance(body0[0], ast.Expr) and isinstance(body0[0].value, ast.Constant) and isinstance(body0[0].value.value, str)
            hn.body = (body0[:1] if doc_first else []) + [init] + (body0[1:] if doc_first else body0)
        targets = []  # (the accumulator IS the target: former returns assign nothing)
        st = ast.copy_location(ast.Expr(value=call), st)
    is_method = h.cls is not None and not any(isinstance(d, ast.Name) and d.id == "staticmethod" for d in hn.decorator_list)
    params = [a.arg for a in hn.args.args]
    if is_method and params:
        recv = params[0]
        params = params[1:]
        if recv not in ("self", "cls"):
            return None
    if any(isinstance(a, ast.Starred) for a in call.args) or any(k.arg is None for k in call.keywords) or len(call.args) > len(params):
        return None
    bound: dict[str, ast.AST] = dict(zip(params, call.args))
    for k in call.keywords:
        if k.arg not in params or k.arg in bound:
            return None
        bound[k.arg] = k.value  # type: ignore[index]
    defaults = dict(zip(reversed([a.arg for a in hn.args.args]), reversed(hn.args.defaults)))
    for a in hn.args.kwonlyargs:
        return None
    for p in params:
        if p not in bound:
            if p not in defaults:
                return None
            bound[p] = defaults[p]
    rebinds = {n.id for n in walk_no_nested(hn) if isinstance(n, ast.Name) and isinstance(n.ctx, (ast.Store, ast.Del))}
    helper_locals = _local_names(hn) - set(params) - {"self", "cls"}
    if gen:
        helper_locals.discard(acc)  # the caller's temporary
    rename: dict[str, str] = {}
    # a helper local that is bound exactly once, to the same expression the caller binds the same name to (once, earlier, from
    # names the caller binds once), IS the caller's local: keep the name and drop the helper's duplicate binding
    same_def: set[str] = set()
    caller_fn = fi.node
    # ... and under another name: `text = match.group()` in the helper where the caller has `matched_text = match.group()`
    alias_def: dict[str, str] = {}
    pmap0 = {p: bound[p] for p in params if isinstance(bound[p], ast.Name)}
    caller_single: dict[str, ast.Assign] = {}
    for n in walk_no_nested(caller_fn):
        if isinstance(n, ast.Assign) and len(n.targets) == 1 and isinstance(n.targets[0], ast.Name) and isinstance(n.value, (ast.Call, ast.Attribute, ast.Subscript)):
            caller_single.setdefault(n.targets[0].id, n) if n.targets[0].id not in caller_single else caller_single.__setitem__(n.targets[0].id, None)  # type: ignore[arg-type]
    for nm in sorted(helper_locals):
        hd = [n for n in walk_no_nested(hn) if isinstance(n, ast.Assign) and len(n.targets) == 1 and isinstance(n.targets[0], ast.Name) and n.targets[0].id == nm]
        hall = [n for n in walk_no_nested(hn) if isinstance(n, ast.Name) and n.id == nm and isinstance(n.ctx, (ast.Store, ast.Del))]
        if not (len(hd) == 1 and len(hall) == 1 and hd[0] in hn.body and isinstance(hd[0].value, (ast.Call, ast.Attribute, ast.Subscript))):
            continue
        hv = clone(hd[0].value)
        for x in ast.walk(hv):
            if isinstance(x, ast.Name) and x.id in pmap0:
                x.id = pmap0[x.id].id  # type: ignore[union-attr]
        if any(isinstance(x, ast.Name) and x.id in helper_locals for x in ast.walk(hv)):
            continue
        htxt = ast.unparse(hv)
        for cn, cdn in caller_single.items():
            if cdn is None or cn == nm or cn in helper_locals:
                continue
            if ast.unparse(cdn.value) != htxt:
                continue
            if sum(1 for n in walk_no_nested(caller_fn) if isinstance(n, ast.Name) and n.id == cn and isinstance(n.ctx, (ast.Store, ast.Del))) != 1:
                continue
            free = {x.id for x in ast.walk(hv) if isinstance(x, ast.Name)}
            if not all(sum(1 for n in walk_no_nested(caller_fn) if isinstance(n, ast.Name) and n.id == f and isinstance(n.ctx, ast.Store)) <= 1 for f in free):
                continue
            if cdn.lineno <= st.lineno and _dominates(caller_fn, cdn, st_orig):
                alias_def[nm] = cn
                hn.body.remove(hd[0])
                break
    for nm in sorted(helper_locals):
        if nm not in caller_names or nm in alias_def:
            continue
        hd = [n for n in walk_no_nested(hn) if isinstance(n, ast.Assign) and len(n.targets) == 1 and isinstance(n.targets[0], ast.Name) and n.targets[0].id == nm]
        hall = [n for n in walk_no_nested(hn) if isinstance(n, ast.Name) and n.id == nm and isinstance(n.ctx, (ast.Store, ast.Del))]
        cd = [n for n in walk_no_nested(caller_fn) if isinstance(n, ast.Assign) and len(n.targets) == 1 and isinstance(n.targets[0], ast.Name) and n.targets[0].id == nm]
        call_stores = [n for n in walk_no_nested(caller_fn) if isinstance(n, ast.Name) and n.id == nm and isinstance(n.ctx, (ast.Store, ast.Del))]
        if len(hd) == 1 and len(hall) == 1 and len(cd) == 1 and len(call_stores) == 1 and hd[0] in hn.body and cd[0].lineno <= st.lineno and _dominates(caller_fn, cd[0], st_orig):
            # compare after binding the helper's parameters to the call's arguments
            pmap = {p: bound[p] for p in params if isinstance(bound[p], ast.Name)}
            hv = clone(hd[0].value)
            for x in ast.walk(hv):
                if isinstance(x, ast.Name) and x.id in pmap:
                    x.id = pmap[x.id].id  # type: ignore[union-attr]
            free = {x.id for x in ast.walk(hv) if isinstance(x, ast.Name)}
            stable = all(sum(1 for n in walk_no_nested(caller_fn) if isinstance(n, ast.Name) and n.id == f and isinstance(n.ctx, ast.Store)) <= 1 for f in free)
            if ast.unparse(hv) == ast.unparse(cd[0].value) and stable:
                same_def.add(nm)
                hn.body.remove(hd[0])
    # a helper local that every return hands back into the caller's local of the same name (`pos, line = h(...)` with
    # `return pos, ...` in h) may simply BE that local: the caller's value is overwritten by the result anyway. Not when the
    # caller's value is still needed inside the body through a substituted argument.
    tg_names: list[str | None] = []
    if len(targets) == 1 and isinstance(targets[0], ast.Tuple):
        tg_names = [t.id if isinstance(t, ast.Name) else None for t in targets[0].elts]
    elif len(targets) == 1 and isinstance(targets[0], ast.Name):
        tg_names = [targets[0].id]
    rets = [n for n in walk_no_nested(hn) if isinstance(n, ast.Return)]
    subst_arg_names = {x.id for p in params if p not in rebinds and isinstance(bound[p], ast.Name) for x in [bound[p]]}
    handed_back: set[str] = set()
    for i, tn in enumerate(tg_names):
        if tn is None or tn not in helper_locals or tn in subst_arg_names:
            continue
        def elem(r: ast.Return, i=i):
            v = r.value
            if len(tg_names) == 1:
                return v
            return v.elts[i] if isinstance(v, ast.Tuple) and len(v.elts) == len(tg_names) else None
        if rets and all(isinstance(elem(r), ast.Name) and elem(r).id == tn for r in rets):  # type: ignore[union-attr]
            handed_back.add(tn)
    # a generator / context manager that yields its own locals into caller targets of the same names (`with h() as (fd, path)`
    # where h does `yield fd, path`): those locals are the caller's
    yh = getattr(st_orig, "_yield_body", None)
    if yh is not None and not isinstance(yh[0], str):
        tnames = [e.id for e in (yh[0].elts if isinstance(yh[0], ast.Tuple) else [yh[0]]) if isinstance(e, ast.Name)]
        for y in [n for n in ast.walk(h.node) if isinstance(n, ast.Yield) and n.value is not None]:
            ynames = [e.id for e in (y.value.elts if isinstance(y.value, ast.Tuple) else [y.value]) if isinstance(e, ast.Name)]
            if ynames == tnames:
                handed_back |= set(tnames) & helper_locals
    for nm in sorted(helper_locals):
        if nm in alias_def:
            rename[nm] = alias_def[nm]
            continue
        if nm in same_def or nm in handed_back:
            continue
        if nm in caller_names:
            new = nm + "__" + h.name.strip("_")
            while new in caller_names:
                new += "_"
            rename[nm] = new
    subst: dict[str, ast.AST] = {}
    prologue: list[ast.stmt] = []
    for p in params:
        arg = bound[p]
        if isinstance(arg, ast.Name) and arg.id == p:
            continue
        if p not in rebinds and isinstance(arg, (ast.Name, ast.Constant)):
            subst[p] = arg
            continue
        # a pure expression (no call, no comprehension, nothing conditional) over caller names the helper body cannot rebind
        # stands for itself: `h(item, indent + 1)` reads `indent + 1` wherever h reads its parameter
        if p not in rebinds and not any(isinstance(x, (ast.Call, ast.Lambda, ast.ListComp, ast.SetComp, ast.DictComp, ast.GeneratorExp, ast.NamedExpr, ast.Await, ast.Yield, ast.YieldFrom)) for x in ast.walk(arg)) and not ({x.id for x in ast.walk(arg) if isinstance(x, ast.Name)} & ((helper_locals | set(params)) - {p})):
            subst[p] = arg
            continue
        tgt = p
        if p in caller_names:
            tgt = p + "__" + h.name.strip("_")
            while tgt in caller_names:
                tgt += "_"
            rename[p] = tgt
        asg = ast.Assign(targets=[ast.Name(id=tgt, ctx=ast.Store())], value=clone(arg), lineno=st.lineno, col_offset=st.col_offset, end_lineno=st.lineno, end_col_offset=st.col_offset)
        prologue.append(asg)

    class R(ast.NodeTransformer):
        def visit(self, node):  # statements / targets of the CALLER that were placed into the body keep the caller's names
            if getattr(node, "_caller_stmt", False):
                return node
            return super().visit(node)

        def visit_Name(self, n: ast.Name):  # noqa: N802
            if n.id in subst and isinstance(n.ctx, ast.Load):
                return ast.copy_location(clone(subst[n.id]), n)
            if n.id in rename:
                return ast.copy_location(ast.Name(id=rename[n.id], ctx=n.ctx), n)
            return n

        def visit_ExceptHandler(self, n: ast.ExceptHandler):  # noqa: N802
            self.generic_visit(n)
            if n.name in rename:
                n.name = rename[n.name]
            return n

    body = [b for b in hn.body]
    if body and isinstance(body[0], ast.Expr) and isinstance(body[0].value, ast.Constant) and isinstance(body[0].value.value, str):
        body = body[1:]
    def result(v: ast.AST | None, at: ast.stmt) -> list[ast.stmt]:
        """what `return v` of the helper becomes at this call site"""
        val = v if v is not None else ast.Constant(value=None)
        val = _record_display(fi, val) if targets and len(targets) == 1 and isinstance(targets[0], ast.Tuple) else val
        res: list[ast.stmt] = []
        if isinstance(st, ast.Return):
            res.append(ast.Return(value=val))
        elif targets:
            if isinstance(st, ast.AnnAssign):
                res.append(ast.AnnAssign(target=clone(st.target), annotation=st.annotation, value=val, simple=st.simple))
            elif len(targets) == 1 and isinstance(targets[0], ast.Tuple) and isinstance(val, ast.Tuple) and len(val.elts) == len(targets[0].elts) and all(isinstance(t, ast.Name) for t in targets[0].elts) and not ({t.id for t, e in zip(targets[0].elts, val.elts) if not (isinstance(e, ast.Name) and e.id == t.id)} & {x.id for t, e in zip(targets[0].elts, val.elts) if not (isinstance(e, ast.Name) and e.id == t.id) for x in ast.walk(e) if isinstance(x, ast.Name)}):
                # a, b = x, y  with targets that do not occur on the right: one plain assignment per element
                for t, e in zip(targets[0].elts, val.elts):
                    if isinstance(e, ast.Name) and e.id == t.id:
                        continue  # handed back into the same local
                    res.append(ast.Assign(targets=[clone(t)], value=e))
            elif len(targets) == 1 and isinstance(targets[0], ast.Name) and isinstance(val, ast.Name) and val.id == targets[0].id:
                pass  # handed back into the same local: nothing to bind
            else:
                res.append(ast.Assign(targets=clone(targets), value=val))
        elif v is not None and not isinstance(v, (ast.Constant, ast.Name)):
            res.append(ast.Expr(value=val))
        if not res:
            res.append(ast.Pass())
        for r in res:
            ast.copy_location(r, at)
            ast.fix_missing_locations(r)
            r._was_return = True  # type: ignore[attr-defined]
        if thread is not None:
            pol = thread[1]  # test true <=> target is not None
            tval = val
            if thread[2] is not None:
                # the tested name is one element of a tuple target: look at that element of the returned tuple
                tval = val.elts[thread[2]] if isinstance(val, ast.Tuple) and len(val.elts) == thread[3] else ast.Name(id="?", ctx=ast.Load())
            if thread[4] is not None:
                # test of the result against a constant (status value): decided where the returned expression is a constant
                eq = _truthiness(tval) if thread[4] == "<truthy>" else _equals_const(tval, thread[4])
                if eq is None:
                    res.append(clone(follow_if))
                else:
                    res += clone(list(follow_if.body if eq == pol else follow_if.orelse))  # type: ignore[union-attr]
            elif isinstance(tval, ast.Constant) and tval.value is None:
                branch = follow_if.orelse if pol else follow_if.body  # type: ignore[union-attr]
                res += clone(list(branch))
            elif _never_none(fi, hn, tval):
                branch = follow_if.body if pol else follow_if.orelse  # type: ignore[union-attr]
                res += clone(list(branch))
            else:
                res.append(clone(follow_if))
        return res

    thread = None

    def _jumps(stmts: list[ast.stmt]) -> bool:
        # break / continue that would target a loop OUTSIDE these statements
        def w(n: ast.AST) -> bool:
            if isinstance(n, (ast.Break, ast.Continue)):
                return True
            if isinstance(n, (ast.For, ast.While, ast.AsyncFor, ast.FunctionDef, ast.AsyncFunctionDef, ast.Lambda, ast.ClassDef)):
                return False
            return any(w(c) for c in ast.iter_child_nodes(n))
        return any(w(x) for x in stmts)

    # (a branch that jumps - break / continue of the caller's loop - cannot be moved into a LOOP of the inlined body. In the
    # tree form no return site is inside a loop; the block forms drop the threading, see below)
    if follow_if is not None and len(targets) == 1 and isinstance(st, ast.Assign):
        cands = [(None, targets[0])] if isinstance(targets[0], ast.Name) else list(enumerate(targets[0].elts)) if isinstance(targets[0], ast.Tuple) else []
        for pos, t in cands:
            if isinstance(t, ast.Name):
                pol = _none_test(follow_if.test, t.id)
                if pol is not None:
                    thread = (t.id, pol, pos, len(cands), None)
                else:
                    ct = _const_test(follow_if.test, t.id)
                    if ct is not None:
                        thread = (t.id, ct[1], pos, len(cands), ct[0])
                    else:
                        # plain truthiness: `if x:` / `if not x:` - decided where the helper returns a literal
                        tt, neg_ = follow_if.test, False
                        while isinstance(tt, ast.UnaryOp) and isinstance(tt.op, ast.Not):
                            tt, neg_ = tt.operand, not neg_
                        if isinstance(tt, ast.Name) and tt.id == t.id:
                            thread = (t.id, not neg_, pos, len(cands), "<truthy>")
    renamed_body = [R().visit(b) for b in body]
    if isinstance(st, ast.Return):
        # `return h(...)`: the helper's returns simply become the caller's
        new_body = renamed_body
        if not _always_leaves(new_body):
            new_body = new_body + [ast.copy_location(ast.Return(value=None), st)]
    else:
        if thread is not None:
            # a return inside a loop of the helper whose threaded continuation always leaves (e.g. `return True` where the caller
            # does `if h(..): return <refusal>`): the continuation simply takes the return's place - nothing has to leave the loop
            def in_loop_returns(stmts_: list[ast.stmt], inside: bool) -> None:
                for i_, s_ in enumerate(list(stmts_)):
                    if getattr(s_, "_caller_stmt", False) or isinstance(s_, (ast.FunctionDef, ast.AsyncFunctionDef, ast.ClassDef)):
                        continue
                    if isinstance(s_, ast.Return) and inside:
                        rep = result(s_.value, s_)
                        if _always_leaves(rep):
                            for r_ in rep:
                                r_._caller_stmt = True  # type: ignore[attr-defined]
                            k_ = stmts_.index(s_)
                            stmts_[k_:k_ + 1] = rep
                        continue
                    loop = isinstance(s_, (ast.For, ast.While, ast.AsyncFor))
                    for f_ in ("body", "orelse", "finalbody"):
                        v_ = getattr(s_, f_, None)
                        if isinstance(v_, list) and v_ and isinstance(v_[0], ast.stmt):
                            in_loop_returns(v_, inside or (loop and f_ == "body"))
                    for hd_ in getattr(s_, "handlers", []) or []:
                        in_loop_returns(hd_.body, inside)

            in_loop_returns(renamed_body, False)
        try:
            new_body, exits = eliminate_returns(renamed_body, result)
            if not exits and targets:
                new_body += result(None, st)
        except _NeedBlock:
            if thread is not None and (_jumps(follow_if.body) or _jumps(follow_if.orelse)):  # type: ignore[union-attr]
                thread = None  # (the synthetic block is a loop: a threaded break / continue would bind to it)
            try:
                new_body = block_form(renamed_body, result)
            except _Unsupported:
                return None
            for b_ in new_body:
                if not hasattr(b_, "lineno"):
                    ast.copy_location(b_, st)
        except _Unsupported:
            return None
    if thread is not None and consumed is not None:
        consumed[0] = True
    out: list[ast.stmt] = prologue + new_body
    for o in out:
        ast.fix_missing_locations(o)
    caller_names |= set(rename.values()) | helper_locals
    return out or [ast.copy_location(ast.Pass(), st)]


def _expression_helper(h: FuncInfo, allow_line: bool = False) -> ast.AST | None:
    """the returned expression when the helper's body is just `return <expr>` (after the docstring)"""
    if not inlinable(h.node):
        return None
    body = [b for b in h.node.body if not (isinstance(b, ast.Expr) and isinstance(b.value, ast.Constant) and isinstance(b.value.value, str))]  # type: ignore[attr-defined]
    if len(body) == 1 and isinstance(body[0], ast.Return) and body[0].value is not None:
        return body[0].value
    # a straight line of single-assignment locals followed by the return (`escaped = f(x); return f'"{escaped}"'`) is the
    # expression obtained by writing each local out where it is read - when every local is bound once, read at most once (so
    # nothing is evaluated twice or in another order) and not a parameter
    if allow_line and 2 <= len(body) <= 5 and isinstance(body[-1], ast.Return) and body[-1].value is not None and all(isinstance(b, ast.Assign) and len(b.targets) == 1 and isinstance(b.targets[0], ast.Name) for b in body[:-1]):
        params = {a.arg for a in h.node.args.args + h.node.args.kwonlyargs}  # type: ignore[attr-defined]
        names = [b.targets[0].id for b in body[:-1]]  # type: ignore[attr-defined]
        if len(set(names)) == len(names) and not (set(names) & params):
            expr: ast.AST = clone(body[-1].value)
            ok = True
            for b in reversed(body[:-1]):
                nm = b.targets[0].id  # type: ignore[attr-defined]
                later = [x for st in body[body.index(b) + 1:] for x in ast.walk(st) if isinstance(x, ast.Name) and x.id == nm]
                reads_in_expr = [x for x in ast.walk(expr) if isinstance(x, ast.Name) and x.id == nm and isinstance(x.ctx, ast.Load)]
                if len(reads_in_expr) > 1 or len(later) < len(reads_in_expr):
                    ok = False
                    break
                val = b.value

                class _Sub(ast.NodeTransformer):
                    def visit_Name(self, x: ast.Name):  # noqa: N802
                        return ast.copy_location(clone(val), x) if isinstance(x.ctx, ast.Load) and x.id == nm else x

                expr = _Sub().visit(expr)
            # every local must have been consumed by the substitution (a local that is only bound is an effect we keep out)
            if ok and not any(isinstance(x, ast.Name) and x.id in names for x in ast.walk(expr)):
                return expr
    return None


def _bind_args(h: FuncInfo, call: ast.Call) -> dict[str, ast.AST] | None:
    hn = h.node
    is_method = h.cls is not None and not any(isinstance(d, ast.Name) and d.id == "staticmethod" for d in hn.decorator_list)  # type: ignore[attr-defined]
    params = [a.arg for a in hn.args.args]  # type: ignore[attr-defined]
    if is_method and params:
        if params[0] not in ("self", "cls"):
            return None
        params = params[1:]
    if hn.args.kwonlyargs or any(isinstance(a, ast.Starred) for a in call.args) or any(k.arg is None for k in call.keywords) or len(call.args) > len(params):  # type: ignore[attr-defined]
        return None
    bound: dict[str, ast.AST] = dict(zip(params, call.args))
    for k in call.keywords:
        if k.arg not in params or k.arg in bound:
            return None
        bound[k.arg] = k.value  # type: ignore[index]
    defaults = dict(zip(reversed([a.arg for a in hn.args.args]), reversed(hn.args.defaults)))  # type: ignore[attr-defined]
    for p in params:
        if p not in bound:
            if p not in defaults:
                return None
            bound[p] = defaults[p]
    return bound


class _ExprInliner(ast.NodeTransformer):
    """replaces calls of one-expression helpers by that expression (parameters substituted), anywhere in an expression; and
    hoists calls of other selected helpers out of the arguments of a simple statement into a temporary bound just before it
    (`x.extend(h(a))` -> `_h1 = h(a); x.extend(_h1)`), so that the statement-level inliner can expand them"""

    def __init__(self, fi: FuncInfo, sel, names: set[str], inlined: list[str]):
        self.fi, self.sel, self.names, self.inlined = fi, sel, names, inlined
        self.hoisted: list[ast.stmt] = []
        self.stmt: ast.stmt | None = None
        self.conditional = 0
        self.changed = False

    def visit_Lambda(self, n):  # noqa: N802
        return n

    def _cond(self, n):
        self.conditional += 1
        try:
            return self.generic_visit(n)
        finally:
            self.conditional -= 1

    visit_GeneratorExp = visit_IfExp = visit_BoolOp = _cond  # noqa: N815

    def _comp(self, n):
        # an eager comprehension whose source is a generator helper: the helper's items are read as a list first
        if not self.conditional and self.stmt is not None and isinstance(self.stmt, (ast.Expr, ast.Assign, ast.AnnAssign, ast.AugAssign, ast.Return)) and n.generators and isinstance(n.generators[0].iter, ast.Call):
            src = n.generators[0].iter
            g = _helper_of(self.fi, src)
            if g is not None and is_generator(g.node) and inlinable(g.node, allow_generator=True) and self.sel(g, src, self.stmt):
                tmp = f"_{g.name.strip('_')}_items"
                while tmp in self.names:
                    tmp += "_"
                self.names.add(tmp)
                asg = ast.Assign(targets=[ast.Name(id=tmp, ctx=ast.Store())], value=src)
                ast.copy_location(asg, self.stmt)
                ast.fix_missing_locations(asg)
                asg._eager_ok = True  # type: ignore[attr-defined]
                self.hoisted.append(asg)
                self.changed = True
                n.generators[0].iter = ast.copy_location(ast.Name(id=tmp, ctx=ast.Load()), src)
        return self._cond(n)

    visit_ListComp = visit_SetComp = visit_DictComp = _comp  # noqa: N815

    _CONSUMERS = {"list", "tuple", "sorted", "set", "frozenset", "sum", "dict"}

    def visit_Call(self, n: ast.Call):  # noqa: N802
        self.generic_visit(n)
        # a generator helper consumed at once: hoist it as the eager list it yields
        consumer = (isinstance(n.func, ast.Name) and n.func.id in self._CONSUMERS) or (isinstance(n.func, ast.Attribute) and n.func.attr in ("join", "extend"))
        # `next(<genexp over gen(..)>, default)` / any / all / list ... over a comprehension whose source is the generator helper:
        # the helper's items are read eagerly too. This evaluates MORE than the lazy original (the candidates after the first
        # hit); for the rules - which ask what is built from what, not how much of it - that is the safe direction.
        lazy_consumer = isinstance(n.func, ast.Name) and n.func.id in (self._CONSUMERS | {"next", "any", "all", "min", "max"})
        if lazy_consumer and n.args and isinstance(n.args[0], (ast.GeneratorExp, ast.ListComp)) and n.args[0].generators and isinstance(n.args[0].generators[0].iter, ast.Call) and self.conditional <= 0 and self.stmt is not None and isinstance(self.stmt, (ast.Expr, ast.Assign, ast.AnnAssign, ast.AugAssign, ast.Return)):
            src = n.args[0].generators[0].iter
            g = _helper_of(self.fi, src)
            if g is not None and is_generator(g.node) and inlinable(g.node, allow_generator=True) and self.sel(g, src, self.stmt):
                tmp = f"_{g.name.strip('_')}_items"
                while tmp in self.names:
                    tmp += "_"
                self.names.add(tmp)
                asg = ast.Assign(targets=[ast.Name(id=tmp, ctx=ast.Store())], value=src)
                ast.copy_location(asg, self.stmt)
                ast.fix_missing_locations(asg)
                asg._eager_ok = True  # type: ignore[attr-defined]
                self.hoisted.append(asg)
                self.changed = True
                n.args[0].generators[0].iter = ast.copy_location(ast.Name(id=tmp, ctx=ast.Load()), src)
                return n
        if consumer and n.args and isinstance(n.args[0], ast.Call) and not self.conditional and self.stmt is not None and isinstance(self.stmt, (ast.Expr, ast.Assign, ast.AnnAssign, ast.AugAssign, ast.Return)):
            g = _helper_of(self.fi, n.args[0])
            if g is not None and is_generator(g.node) and inlinable(g.node, allow_generator=True) and self.sel(g, n.args[0], self.stmt):
                tmp = f"_{g.name.strip('_')}_items"
                while tmp in self.names:
                    tmp += "_"
                self.names.add(tmp)
                asg = ast.Assign(targets=[ast.Name(id=tmp, ctx=ast.Store())], value=n.args[0])
                ast.copy_location(asg, self.stmt)
                ast.fix_missing_locations(asg)
                asg._eager_ok = True  # type: ignore[attr-defined]
                self.hoisted.append(asg)
                self.changed = True
                n.args[0] = ast.copy_location(ast.Name(id=tmp, ctx=ast.Load()), n.args[0])
                return n
        h = _helper_of(self.fi, n)
        if h is None or not self.sel(h, n, self.stmt):
            return n
        if is_generator(h.node):
            return n  # only where it is consumed at once (above)
        # (a straight-line helper is written out as one expression only where a statement cannot stand: inside a
        # comprehension / conditional expression; everywhere else it is read in place statement by statement, locals kept)
        expr = _expression_helper(h, allow_line=bool(self.conditional))
        bound = _bind_args(h, n)
        if bound is None:
            return n
        if expr is not None:
            uses = {p: sum(1 for x in ast.walk(expr) if isinstance(x, ast.Name) and x.id == p) for p in bound}
            if all(uses[p] <= 1 or not any(isinstance(x, ast.Call) for x in ast.walk(a)) for p, a in bound.items()) and not ({x.id for x in ast.walk(expr) if isinstance(x, ast.Name) and isinstance(x.ctx, ast.Store)}):
                env = {p: a for p, a in bound.items()}

                class S(ast.NodeTransformer):
                    def visit_Name(self, x: ast.Name):  # noqa: N802
                        return ast.copy_location(clone(env[x.id]), x) if isinstance(x.ctx, ast.Load) and x.id in env else x

                self.inlined.append(h.qualname)
                self.changed = True
                return ast.copy_location(S().visit(clone(expr)), n)
            return n
        # hoist: only out of unconditional positions of a simple statement, and never the statement's own top-level call
        if self.conditional or self.stmt is None or not isinstance(self.stmt, (ast.Expr, ast.Assign, ast.AnnAssign, ast.AugAssign, ast.Return)) or getattr(self.stmt, "value", None) is n:
            return n
        tmp = f"_{h.name.strip('_')}_result"
        while tmp in self.names:
            tmp += "_"
        self.names.add(tmp)
        asg = ast.Assign(targets=[ast.Name(id=tmp, ctx=ast.Store())], value=n)
        ast.copy_location(asg, self.stmt)
        ast.fix_missing_locations(asg)
        self.hoisted.append(asg)
        self.changed = True
        return ast.copy_location(ast.Name(id=tmp, ctx=ast.Load()), n)


def record_fields(cls: ast.ClassDef) -> list[str] | None:
    """field names, in order, of a NamedTuple / dataclass class written with annotated fields; None for any other class"""
    is_nt = any(ast.unparse(b).split(".")[-1] == "NamedTuple" for b in cls.bases)
    is_dc = any("dataclass" in ast.unparse(d) for d in cls.decorator_list)
    if not (is_nt or is_dc):
        return None
    return [st.target.id for st in cls.body if isinstance(st, ast.AnnAssign) and isinstance(st.target, ast.Name)]


def scalarise_records(fn: ast.AST, records: dict[str, list[str]], classes: dict | None = None) -> int:
    """scalar replacement of a local record: for `v = R(a=e1, b=e2)` (R one of `records`, v bound once) one local per field is
    bound (`v__a = e1; v__b = e2`) and the reads that only concern fields are rewritten to them: `v.a`; a property `v.p` whose
    body is `return <expr over self.fields>`; `x, y = v` (unpacking in field order); a method call `v.m(args)` whose body is one
    returned expression. The record itself stays bound when anything else still uses it. In place; returns how many records
    were treated."""
    done = 0
    names = _all_names(fn)
    for asg in [n for n in walk_no_nested(fn) if isinstance(n, (ast.Assign, ast.AnnAssign))]:
        tg = asg.targets[0] if isinstance(asg, ast.Assign) and len(asg.targets) == 1 else (asg.target if isinstance(asg, ast.AnnAssign) else None)
        call = asg.value
        if not (isinstance(tg, ast.Name) and isinstance(call, ast.Call) and isinstance(call.func, ast.Name) and call.func.id in records):
            continue
        fields = records[call.func.id]
        if any(isinstance(a, ast.Starred) for a in call.args) or any(k.arg is None for k in call.keywords) or len(call.args) > len(fields):
            continue
        vals: dict[str, ast.AST] = dict(zip(fields, call.args))
        vals.update({k.arg: k.value for k in call.keywords})  # type: ignore[misc]
        if set(vals) != set(fields):
            continue  # defaults in play: leave it
        v = tg.id
        stores = [n for n in ast.walk(fn) if isinstance(n, ast.Name) and n.id == v and isinstance(n.ctx, (ast.Store, ast.Del))]
        loads = [n for n in ast.walk(fn) if isinstance(n, ast.Name) and n.id == v and isinstance(n.ctx, ast.Load)]
        if len(stores) != 1:
            continue
        par = getattr(asg, "_parent", None)
        blk = None
        for f in ("body", "orelse", "finalbody"):
            lst = getattr(par, f, None)
            if isinstance(lst, list) and asg in lst:
                blk = lst
        if blk is None:
            continue
        cls_node = (classes or {}).get(call.func.id)
        members: dict[str, ast.FunctionDef] = {m.name: m for m in getattr(cls_node, "body", []) if isinstance(m, ast.FunctionDef)}
        new_names = {}
        repl: list[ast.stmt] = []
        for f_ in fields:
            nm = f"{v}__{f_}"
            while nm in names:
                nm += "_"
            names.add(nm)
            new_names[f_] = nm
            a = ast.Assign(targets=[ast.Name(id=nm, ctx=ast.Store())], value=vals[f_])
            ast.copy_location(a, asg)
            ast.fix_missing_locations(a)
            a._parent = par  # type: ignore[attr-defined]
            repl.append(a)

        def over_fields(expr: ast.AST, env: dict[str, ast.AST]) -> ast.AST | None:
            """`expr` of a member with self.<field> -> field local and parameters -> arguments; None if it needs `self` otherwise"""
            e = clone(expr)
            ok = [True]

            class S(ast.NodeTransformer):
                def visit_Attribute(self, n: ast.Attribute):  # noqa: N802
                    if isinstance(n.value, ast.Name) and n.value.id == "self":
                        if n.attr in new_names and isinstance(n.ctx, ast.Load):
                            return ast.copy_location(ast.Name(id=new_names[n.attr], ctx=ast.Load()), n)
                        ok[0] = False
                        return n
                    return self.generic_visit(n)

                def visit_Name(self, n: ast.Name):  # noqa: N802
                    if n.id == "self":
                        ok[0] = False
                    if n.id in env and isinstance(n.ctx, ast.Load):
                        return ast.copy_location(clone(env[n.id]), n)
                    return n

            out = S().visit(e)
            return out if ok[0] else None

        def single_return(m: ast.FunctionDef) -> ast.AST | None:
            body = [b for b in m.body if not (isinstance(b, ast.Expr) and isinstance(b.value, ast.Constant) and isinstance(b.value.value, str))]
            return body[0].value if len(body) == 1 and isinstance(body[0], ast.Return) and body[0].value is not None else None

        def put(old: ast.AST, new: ast.AST) -> None:
            gp = getattr(old, "_parent", None)
            ast.copy_location(new, old)
            ast.fix_missing_locations(new)
            for ch in ast.walk(new):
                for c2 in ast.iter_child_nodes(ch):
                    c2._parent = ch  # type: ignore[attr-defined]
            new._parent = gp  # type: ignore[attr-defined]
            for fld, val in ast.iter_fields(gp):
                if val is old:
                    setattr(gp, fld, new)
                elif isinstance(val, list) and old in val:
                    val[val.index(old)] = new

        remaining = 0
        for n in loads:
            att = getattr(n, "_parent", None)
            if isinstance(att, ast.Attribute) and att.value is n and isinstance(att.ctx, ast.Load):
                if att.attr in new_names:
                    put(att, ast.Name(id=new_names[att.attr], ctx=ast.Load()))
                    continue
                m = members.get(att.attr)
                gp = getattr(att, "_parent", None)
                if m is not None and any(isinstance(d, ast.Name) and d.id == "property" for d in m.decorator_list):
                    r = single_return(m)
                    e = over_fields(r, {}) if r is not None else None
                    if e is not None:
                        put(att, e)
                        continue
                if m is not None and not m.decorator_list and isinstance(gp, ast.Call) and gp.func is att and not gp.keywords and not any(isinstance(a, ast.Starred) for a in gp.args):
                    r = single_return(m)
                    ps = [a.arg for a in m.args.args][1:]
                    e = over_fields(r, dict(zip(ps, gp.args))) if r is not None and len(ps) == len(gp.args) else None
                    if e is not None:
                        put(gp, e)
                        continue
            elif isinstance(att, ast.Assign) and att.value is n and len(att.targets) == 1 and isinstance(att.targets[0], ast.Tuple) and len(att.targets[0].elts) == len(fields) and all(isinstance(t, ast.Name) for t in att.targets[0].elts):
                ap = getattr(att, "_parent", None)
                for f2 in ("body", "orelse", "finalbody"):
                    lst = getattr(ap, f2, None)
                    if isinstance(lst, list) and att in lst:
                        parts = []
                        for t, f_ in zip(att.targets[0].elts, fields):
                            a2 = ast.Assign(targets=[ast.Name(id=t.id, ctx=ast.Store())], value=ast.Name(id=new_names[f_], ctx=ast.Load()))
                            ast.copy_location(a2, att)
                            ast.fix_missing_locations(a2)
                            a2._parent = ap  # type: ignore[attr-defined]
                            for c2 in ast.iter_child_nodes(a2):
                                c2._parent = a2  # type: ignore[attr-defined]
                            parts.append(a2)
                        i2 = lst.index(att)
                        lst[i2:i2 + 1] = parts
                        break
                else:
                    remaining += 1
                continue
            remaining += 1
        i = blk.index(asg)
        if remaining:
            # something still needs the record itself: keep it, built from the field locals
            call.args = [ast.Name(id=new_names[f_], ctx=ast.Load()) for f_ in fields]
            call.keywords = []
            ast.fix_missing_locations(call)
            for c2 in call.args:
                c2._parent = call  # type: ignore[attr-defined]
            blk[i:i] = repl
        else:
            blk[i:i + 1] = repl
        done += 1
    return done


def split_conditional_returns(fi: FuncInfo) -> FuncInfo:
    """view of fi in which `return E(... A if c else B ...)` - every conditional expression of the statement testing the same c -
    is `if c: return E(... A ...) else: return E(... B ...)`; a c that is a local bound once to a comparison stands for that
    comparison when nothing it reads is written in between (single exit with a conditional value -> one return per case)"""
    node = clone(fi.node)
    for parent in ast.walk(node):
        for child in ast.iter_child_nodes(parent):
            child._parent = parent  # type: ignore[attr-defined]
    stores: dict[str, list[ast.AST]] = {}
    for n in walk_no_nested(node):
        if isinstance(n, ast.Name) and isinstance(n.ctx, (ast.Store, ast.Del)):
            stores.setdefault(n.id, []).append(n)
    changed = False
    for blk_owner in list(ast.walk(node)):
        for f in ("body", "orelse", "finalbody"):
            blk = getattr(blk_owner, f, None)
            if not (isinstance(blk, list) and blk and isinstance(blk[0], ast.stmt)):
                continue
            out: list[ast.stmt] = []
            for st in blk:
                ifexps = [x for x in ast.walk(st) if isinstance(x, ast.IfExp)] if isinstance(st, ast.Return) and st.value is not None else []
                tests = {ast.unparse(x.test) for x in ifexps}
                if len(tests) != 1 or any(isinstance(x, (ast.Lambda, ast.ListComp, ast.GeneratorExp, ast.SetComp, ast.DictComp)) for x in ast.walk(st)):
                    out.append(st)
                    continue
                test: ast.AST = clone(ifexps[0].test)
                if isinstance(test, ast.Name) and len(stores.get(test.id, [])) == 1:
                    d = getattr(stores[test.id][0], "_parent", None)
                    if isinstance(d, ast.Assign) and len(d.targets) == 1 and isinstance(d.value, ast.Compare) and d in blk and blk.index(d) < blk.index(st):
                        between = blk[blk.index(d) + 1: blk.index(st)]
                        read = {x.id for x in ast.walk(d.value) if isinstance(x, ast.Name)}
                        if not any(isinstance(x, ast.Name) and isinstance(x.ctx, ast.Store) and x.id in read for b in between for x in ast.walk(b)):
                            test = clone(d.value)

                def pick(n, which: str):
                    if isinstance(n, ast.IfExp):
                        return pick(getattr(n, which), which)
                    if isinstance(n, ast.AST):
                        new = type(n)()
                        for fld in n._fields:
                            if hasattr(n, fld):
                                setattr(new, fld, pick(getattr(n, fld), which))
                        for a in ("lineno", "col_offset", "end_lineno", "end_col_offset"):
                            if hasattr(n, a):
                                setattr(new, a, getattr(n, a))
                        return new
                    if isinstance(n, list):
                        return [pick(x, which) for x in n]
                    return n

                i = ast.If(test=test, body=[pick(st, "body")], orelse=[pick(st, "orelse")])
                ast.fix_missing_locations(ast.copy_location(i, st))
                out.append(i)
                changed = True
            setattr(blk_owner, f, out)
    if not changed:
        return fi
    for parent in ast.walk(node):
        for child in ast.iter_child_nodes(parent):
            child._parent = parent  # type: ignore[attr-defined]
    return replace(fi, node=node)


def _collapse_result_temps(fn: ast.AST) -> None:
    """`_h_result = flag` directly followed by `if [not] _h_result:` (the temporary a helper call in a test was bound to, after the
    helper turned out to hand back a plain local) and used nowhere else: the test reads the local itself"""
    uses: dict[str, int] = {}
    for n in ast.walk(fn):
        if isinstance(n, ast.Name) and n.id.startswith("_") and "_result" in n.id:
            uses[n.id] = uses.get(n.id, 0) + 1
    for owner in ast.walk(fn):
        for f in ("body", "orelse", "finalbody"):
            blk = getattr(owner, f, None)
            if not (isinstance(blk, list) and blk and isinstance(blk[0], ast.stmt)):
                continue
            i = 0
            while i + 1 < len(blk):
                a, b = blk[i], blk[i + 1]
                if isinstance(a, ast.Assign) and len(a.targets) == 1 and isinstance(a.targets[0], ast.Name) and uses.get(a.targets[0].id) == 2 and isinstance(a.value, ast.Name) and getattr(a, "_was_return", False) and isinstance(b, ast.If):
                    tmp = a.targets[0].id
                    t = b.test
                    holder = None
                    while isinstance(t, ast.UnaryOp) and isinstance(t.op, ast.Not):
                        holder, t = t, t.operand
                    if isinstance(t, ast.Name) and t.id == tmp:
                        new = ast.copy_location(ast.Name(id=a.value.id, ctx=ast.Load()), t)
                        if holder is None:
                            b.test = new
                        else:
                            holder.operand = new
                        del blk[i]
                        continue
                i += 1


def _split_walrus_ifs(stmts: list[ast.stmt], is_helper_call: Callable[[ast.Call], bool], is_expression_helper: Callable[[ast.Call], bool] = lambda c: True, taken: set[str] | None = None) -> list[ast.stmt]:
    """`if (x := h(..)) is None: ...` -> `x = h(..)` ; `if x is None: ...` when the walrus is what the test evaluates first (so it is
    evaluated exactly once, unconditionally, before anything else of the statement) and h is a helper that is read in place"""
    out: list[ast.stmt] = []
    taken = taken if taken is not None else set()

    def leading_call(e: ast.AST) -> ast.Call | None:
        while isinstance(e, ast.UnaryOp) and isinstance(e.op, ast.Not):
            e = e.operand
        if isinstance(e, ast.Compare):
            e = e.left
        return e if isinstance(e, ast.Call) else None

    for st in stmts:
        if isinstance(st, ast.If) and isinstance(st.test, ast.BoolOp) and isinstance(st.test.op, ast.And) and not st.orelse:
            # `if A and h(..): BODY` (no else) is `if A: if h(..): BODY`: the helper call becomes the first thing a test evaluates
            vals = st.test.values
            for i in range(1, len(vals)):
                c = leading_call(vals[i])
                if c is not None and is_helper_call(c) and not is_expression_helper(c):
                    inner = ast.If(test=vals[i] if i == len(vals) - 1 else ast.BoolOp(op=ast.And(), values=vals[i:]), body=st.body, orelse=[])
                    ast.fix_missing_locations(ast.copy_location(inner, st))
                    st.test = vals[0] if i == 1 else ast.BoolOp(op=ast.And(), values=vals[:i])
                    ast.fix_missing_locations(st.test)
                    st.body = [inner]
                    break
        if isinstance(st, ast.If):
            holder: list[tuple[ast.AST, str | None, int | None]] = []

            def first(e: ast.AST, parent: ast.AST | None, field: str | None, index: int | None) -> ast.AST | None:
                if isinstance(e, ast.NamedExpr):
                    holder.append((parent, field, index))  # type: ignore[arg-type]
                    return e
                if isinstance(e, ast.Call) and is_helper_call(e) and not is_expression_helper(e):
                    holder.append((parent, field, index))  # type: ignore[arg-type]
                    return e
                if isinstance(e, ast.Compare):
                    return first(e.left, e, "left", None)
                if isinstance(e, ast.BoolOp):
                    return first(e.values[0], e, "values", 0)
                if isinstance(e, ast.UnaryOp) and isinstance(e.op, ast.Not):
                    return first(e.operand, e, "operand", None)
                return None

            w = first(st.test, None, None, None)
            if isinstance(w, ast.Call):
                # `if not h(..): ...` with h a multi-statement helper: bound to a temporary first (it is what the test evaluates first)
                k = 0
                base = "_" + (w.func.attr if isinstance(w.func, ast.Attribute) else getattr(w.func, "id", "helper")).strip("_") + "_result"
                tmp = base
                while tmp in taken:
                    k += 1
                    tmp = f"{base}{k}"
                taken.add(tmp)
                w = ast.copy_location(ast.NamedExpr(target=ast.Name(id=tmp, ctx=ast.Store()), value=w), w)
            if w is not None and isinstance(w.target, ast.Name) and isinstance(w.value, ast.Call) and is_helper_call(w.value):
                parent, field, index = holder[0]
                nm = ast.copy_location(ast.Name(id=w.target.id, ctx=ast.Load()), w)
                if parent is None:
                    st.test = nm
                elif index is None:
                    setattr(parent, field, nm)  # type: ignore[arg-type]
                else:
                    getattr(parent, field)[index] = nm  # type: ignore[arg-type]
                a = ast.Assign(targets=[ast.Name(id=w.target.id, ctx=ast.Store())], value=w.value)
                ast.fix_missing_locations(ast.copy_location(a, st))
                out.append(a)
        out.append(st)
    return out


def inline_helpers(fi: FuncInfo, select: Callable[[FuncInfo, ast.Call, ast.stmt], bool] | None = None, rounds: int = 3) -> tuple[FuncInfo, list[str]]:
    """copy of `fi` with selected single-exit helpers of the same class / module inlined at statement position; also returns
    the qualified names of the helpers that were inlined (for the evidence)"""
    sel = select or (lambda h, c, st: True)
    node = clone(fi.node)
    inlined: list[str] = []
    view = replace(fi, node=node)
    for _ in range(rounds):
        names = _all_names(node)
        changed = False

        def walk(stmts: list[ast.stmt]) -> list[ast.stmt]:
            nonlocal changed
            out: list[ast.stmt] = []
            skip_next = False
            stmts = _split_walrus_ifs(stmts, lambda c: (lambda h_: h_ is not None and sel(h_, c, c) and inlinable(h_.node))(_helper_of(view, c)), lambda c: (lambda h_: h_ is not None and _expression_helper(h_) is not None)(_helper_of(view, c)), names)  # type: ignore[arg-type]
            for idx, st in enumerate(stmts):
                if skip_next:
                    skip_next = False
                    continue
                # `g = gen(..)` whose only use is as the source of a comprehension / for / consumer in the NEXT statement: generators
                # are lazy, so nothing happens before that use - read the call there
                if isinstance(st, ast.Assign) and len(st.targets) == 1 and isinstance(st.targets[0], ast.Name) and isinstance(st.value, ast.Call) and idx + 1 < len(stmts):
                    gh0 = _helper_of(view, st.value)
                    if gh0 is not None and is_generator(gh0.node) and sel(gh0, st.value, st):
                        gname = st.targets[0].id
                        uses = [n for n in ast.walk(node) if isinstance(n, ast.Name) and n.id == gname]
                        nxt_uses = [n for n in ast.walk(stmts[idx + 1]) if isinstance(n, ast.Name) and n.id == gname and isinstance(n.ctx, ast.Load)]
                        if len(uses) == 2 and len(nxt_uses) == 1:
                            class Sub(ast.NodeTransformer):
                                def visit_Name(self, n: ast.Name):  # noqa: N802
                                    return ast.copy_location(st.value, n) if n.id == gname and isinstance(n.ctx, ast.Load) else n
                            stmts[idx + 1] = Sub().visit(stmts[idx + 1])
                            changed = True
                            continue
                # `x = next(gen(..), D)` followed by `if x is not D: <leave>`: only the first item is ever taken and taking it leaves -
                # the generator's own code with `x = <yielded>; <leave>` where it yields, then `x = D`
                if isinstance(st, ast.Assign) and len(st.targets) == 1 and isinstance(st.targets[0], ast.Name) and isinstance(st.value, ast.Call) and isinstance(st.value.func, ast.Name) and st.value.func.id == "next" and len(st.value.args) == 2 and isinstance(st.value.args[0], ast.Call) and idx + 1 < len(stmts) and isinstance(stmts[idx + 1], ast.If):
                    ghn = _helper_of(view, st.value.args[0])
                    nx = stmts[idx + 1]
                    xname = st.targets[0].id
                    dtxt = ast.unparse(st.value.args[1])
                    t = nx.test
                    pol = None
                    if isinstance(t, ast.Compare) and len(t.ops) == 1 and isinstance(t.left, ast.Name) and t.left.id == xname and ast.unparse(t.comparators[0]) == dtxt:
                        if isinstance(t.ops[0], (ast.IsNot, ast.NotEq)):
                            pol = True
                        elif isinstance(t.ops[0], (ast.Is, ast.Eq)):
                            pol = False
                    if ghn is not None and pol is not None and is_generator(ghn.node) and inlinable(ghn.node, allow_generator=True) and sel(ghn, st.value.args[0], st):
                        item_branch = nx.body if pol else nx.orelse
                        other_branch = nx.orelse if pol else nx.body
                        if item_branch and _always_leaves(item_branch):
                            tmp = f"_{ghn.name.strip('_')}_first"
                            while tmp in names:
                                tmp += "_"
                            names.add(tmp)
                            hst = ast.Assign(targets=[ast.Name(id=tmp, ctx=ast.Store())], value=st.value.args[0])
                            ast.fix_missing_locations(ast.copy_location(hst, st))
                            hst._eager_ok = True  # type: ignore[attr-defined]
                            hst._yield_body = (xname, None, item_branch)  # type: ignore[attr-defined]
                            exp_n = _expand(view, names, hst, lambda h, c, s: sel(h, c, s))
                            if exp_n is not None:
                                inlined.append(ghn.qualname)
                                changed = True
                                out.extend(exp_n)
                                dflt = ast.Assign(targets=[ast.Name(id=xname, ctx=ast.Store())], value=st.value.args[1])
                                out.append(ast.fix_missing_locations(ast.copy_location(dflt, st)))
                                out.extend(walk(list(other_branch)))
                                skip_next = True
                                continue
                # `with h(..) as v: BODY` where h is a new @contextmanager generator with one `yield`: the generator's own code with
                # `v = <yielded>; BODY` at the yield (an exception in BODY is raised at the yield, i.e. exactly there)
                if isinstance(st, ast.With) and len(st.items) == 1 and isinstance(st.items[0].context_expr, ast.Call) and (st.items[0].optional_vars is None or isinstance(st.items[0].optional_vars, (ast.Name, ast.Tuple))):
                    ghc = _helper_of(view, st.items[0].context_expr)
                    if ghc is not None and any(ast.unparse(d).split(".")[-1] == "contextmanager" for d in ghc.node.decorator_list) and sel(ghc, st.items[0].context_expr, st):
                        ys = [n for n in walk_no_nested(ghc.node) if isinstance(n, (ast.Yield, ast.YieldFrom))]
                        if len(ys) == 1 and isinstance(ys[0], ast.Yield) and inlinable(ghc.node, allow_generator=True, allow_cm=True):
                            tmp = f"_{ghc.name.strip('_')}_cm"
                            while tmp in names:
                                tmp += "_"
                            names.add(tmp)
                            hst = ast.Assign(targets=[ast.Name(id=tmp, ctx=ast.Store())], value=st.items[0].context_expr)
                            ast.fix_missing_locations(ast.copy_location(hst, st))
                            hst._eager_ok = True  # type: ignore[attr-defined]
                            hst._cm_ok = True  # type: ignore[attr-defined]
                            hst._yield_body = (st.items[0].optional_vars if st.items[0].optional_vars is not None else "_", None, walk(list(st.body)))  # type: ignore[attr-defined]
                            exp_c = _expand(view, names, hst, lambda h, c, s: sel(h, c, s))
                            if exp_c is not None:
                                inlined.append(ghc.qualname)
                                changed = True
                                out.extend(exp_c)
                                continue
                # `for t in gen(..): BODY` over a generator helper: the helper's own loop, with `t = <yielded>; BODY` where it yields
                if isinstance(st, ast.For) and not st.orelse and isinstance(st.iter, ast.Call) and isinstance(st.target, (ast.Name, ast.Tuple)):
                    ghf = _helper_of(view, st.iter)
                    def _own_jumps(body) -> bool:
                        def w(n) -> bool:
                            if isinstance(n, (ast.Break, ast.Continue)):
                                return True
                            if isinstance(n, (ast.For, ast.While, ast.FunctionDef, ast.AsyncFunctionDef, ast.Lambda, ast.ClassDef)):
                                return False
                            return any(w(c) for c in ast.iter_child_nodes(n))
                        return any(w(x) for x in body)
                    if ghf is not None and is_generator(ghf.node) and inlinable(ghf.node, allow_generator=True) and sel(ghf, st.iter, st) and not _own_jumps(st.body):
                        tmp = f"_{ghf.name.strip('_')}_loop"
                        while tmp in names:
                            tmp += "_"
                        names.add(tmp)
                        hst = ast.Assign(targets=[ast.Name(id=tmp, ctx=ast.Store())], value=st.iter)
                        ast.fix_missing_locations(ast.copy_location(hst, st))
                        hst._eager_ok = True  # type: ignore[attr-defined]
                        hst._yield_body = (st.target, None, st.body)  # type: ignore[attr-defined]
                        exp_f = _expand(view, names, hst, lambda h, c, s: sel(h, c, s))
                        if exp_f is not None:
                            inlined.append(ghf.qualname)
                            changed = True
                            out.extend(exp_f)
                            continue
                # `x = h(a) if c else d` with a selected helper in a branch: the same thing as an if/else statement
                if isinstance(st, ast.Assign) and isinstance(st.value, ast.IfExp) and any(isinstance(b, ast.Call) and (lambda hh: hh is not None and sel(hh, b, st))(_helper_of(view, b)) for b in (st.value.body, st.value.orelse)):
                    ife = st.value
                    a1 = ast.Assign(targets=clone(st.targets), value=ife.body)
                    a2 = ast.Assign(targets=clone(st.targets), value=ife.orelse)
                    new_if = ast.If(test=ife.test, body=[ast.copy_location(a1, st)], orelse=[ast.copy_location(a2, st)])
                    ast.fix_missing_locations(ast.copy_location(new_if, st))
                    new_if.body = walk(new_if.body)
                    new_if.orelse = walk(new_if.orelse)
                    out.append(new_if)
                    changed = True
                    continue
                # `if [C and] any(<cond on x> for x in gen(..)): <leave>` over a generator helper: read as the helper's own loop with
                # `x = <yielded>; if <cond>: <leave>` where it yields (any() stops at the first hit and the branch leaves anyway)
                if isinstance(st, ast.If) and not st.orelse and _always_leaves(st.body):
                    conj = st.test.values if isinstance(st.test, ast.BoolOp) and isinstance(st.test.op, ast.And) else [st.test]
                    last = conj[-1]
                    if isinstance(last, ast.Call) and isinstance(last.func, ast.Name) and last.func.id == "any" and len(last.args) == 1 and isinstance(last.args[0], ast.GeneratorExp) and len(last.args[0].generators) == 1:
                        ge = last.args[0]
                        g = ge.generators[0]
                        gh = _helper_of(view, g.iter) if isinstance(g.iter, ast.Call) else None
                        if gh is not None and isinstance(g.target, ast.Name) and not g.ifs and is_generator(gh.node) and inlinable(gh.node, allow_generator=True) and sel(gh, g.iter, st) and g.target.id not in names - {g.target.id}:
                            tmp = f"_{gh.name.strip('_')}_scan"
                            while tmp in names:
                                tmp += "_"
                            names.add(tmp)
                            hst = ast.Assign(targets=[ast.Name(id=tmp, ctx=ast.Store())], value=g.iter)
                            ast.fix_missing_locations(ast.copy_location(hst, st))
                            hst._eager_ok = True  # type: ignore[attr-defined]
                            hst._yield_body = (g.target.id, ge.elt, st.body)  # type: ignore[attr-defined]
                            exp_a = _expand(view, names, hst, lambda h, c, s: sel(h, c, s))
                            if exp_a is not None:
                                inlined.append(gh.qualname)
                                changed = True
                                if len(conj) > 1:
                                    outer = ast.If(test=conj[0] if len(conj) == 2 else ast.BoolOp(op=ast.And(), values=conj[:-1]), body=exp_a, orelse=[])
                                    out.append(ast.fix_missing_locations(ast.copy_location(outer, st)))
                                else:
                                    out.extend(exp_a)
                                continue
                # expression-position helpers first: substitute one-expression helpers, hoist the others in front of the statement
                if isinstance(st, (ast.Expr, ast.Assign, ast.AnnAssign, ast.AugAssign, ast.Return, ast.If, ast.While)):
                    ei = _ExprInliner(view, sel, names, inlined)
                    ei.stmt = st
                    if isinstance(st, (ast.If, ast.While)):
                        ei.stmt = None  # (no hoisting out of a test: a loop test is evaluated repeatedly)
                        st.test = ei.visit(st.test)
                    else:
                        for fld in ("value", "targets", "target"):
                            v = getattr(st, fld, None)
                            if isinstance(v, ast.AST):
                                setattr(st, fld, ei.visit(v))
                            elif isinstance(v, list):
                                setattr(st, fld, [ei.visit(x) for x in v])
                    if ei.changed:
                        changed = True
                        ast.fix_missing_locations(st)
                    for hst in ei.hoisted:
                        exp_h = _expand(view, names, hst, lambda h, c, s: sel(h, c, s))
                        if exp_h is not None:
                            hh = _helper_of(view, hst.value)  # type: ignore[attr-defined]
                            inlined.append(hh.qualname if hh else "?")
                            out.extend(exp_h)
                        else:
                            out.append(hst)
                nxt = stmts[idx + 1] if idx + 1 < len(stmts) else None
                consumed = [False]
                exp = _expand(view, names, st, lambda h, c, s: sel(h, c, s), nxt if isinstance(nxt, ast.If) else None, consumed)
                if exp is not None:
                    h = _helper_of(view, st.value)  # type: ignore[attr-defined]
                    inlined.append(h.qualname if h else "?")
                    out.extend(exp)
                    changed = True
                    skip_next = consumed[0]
                    continue
                for f in ("body", "orelse", "finalbody"):
                    v = getattr(st, f, None)
                    if isinstance(v, list) and v and isinstance(v[0], ast.stmt) and not isinstance(st, (ast.FunctionDef, ast.AsyncFunctionDef, ast.ClassDef)):
                        setattr(st, f, walk(v))
                if isinstance(st, ast.Try):
                    for hd in st.handlers:
                        hd.body = walk(hd.body)
                if st.__class__.__name__ == "Match":
                    for case in st.cases:  # type: ignore[attr-defined]
                        case.body = walk(case.body)
                out.append(st)
            return out

        node.body = walk(node.body)  # type: ignore[attr-defined]
        _collapse_result_temps(node)
        if not changed:
            break
    for parent in ast.walk(node):
        for child in ast.iter_child_nodes(parent):
            child._parent = parent  # type: ignore[attr-defined]
    node._parent = getattr(fi.node, "_parent", None)  # type: ignore[attr-defined]
    return view, inlined
