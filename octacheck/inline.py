"""Virtual inlining of extracted helpers.

Several rules read one function as a whole (the grammar builder, a tool's execute, a repair loop). An "extract method"
refactoring moves part of that function into a private helper of the same class or module and leaves a call behind; the
behaviour is unchanged but the construct the rule looks for is now one call away. `inline_helpers` returns a copy of a
function in which such calls are replaced by the helper's body, so that the rule sees the same statements as before.

Only statement-position calls are inlined:

    x = self._h(a, b)          a, b = self._h(...)          self._h(...)          x = _h(...)          return _h(...)

and only when the helper is *single-exit*: its body ends in the only `return` it contains (or it contains none), it is not a
generator, not async, has no *args/**kwargs, and every argument can be bound by position or keyword. The inlined text is

    <param> = <arg>            (omitted when the argument is the same name; a parameter the helper never rebinds and that is
                                passed a plain name is substituted instead)
    <body without the return>
    <targets> = <returned expression>

Helper locals that clash with names of the caller are suffixed. Nodes keep their original line numbers (those of the helper),
so reports still point at real source lines. The result is a view for analysis only; nothing is written anywhere.
"""
from __future__ import annotations

import ast
import copy
from dataclasses import replace
from typing import Callable

from .source import FuncInfo, walk_no_nested


def _local_names(fn: ast.AST) -> set[str]:
    out: set[str] = set()
    for n in walk_no_nested(fn):
        if isinstance(n, ast.Name) and isinstance(n.ctx, (ast.Store, ast.Del)):
            out.add(n.id)
        elif isinstance(n, ast.arg):
            out.add(n.arg)
        elif isinstance(n, ast.ExceptHandler) and n.name:
            out.add(n.name)
    for a in ast.walk(fn.args):  # type: ignore[attr-defined]
        if isinstance(a, ast.arg):
            out.add(a.arg)
    return out


def _all_names(fn: ast.AST) -> set[str]:
    return {n.id for n in ast.walk(fn) if isinstance(n, ast.Name)} | _local_names(fn)


def single_exit(h: ast.AST) -> bool:
    if not isinstance(h, ast.FunctionDef):
        return False
    a = h.args
    if a.vararg or a.kwarg or a.posonlyargs:
        return False
    rets = [n for n in walk_no_nested(h) if isinstance(n, ast.Return)]
    if any(isinstance(n, (ast.Yield, ast.YieldFrom, ast.Await, ast.Global, ast.Nonlocal)) for n in walk_no_nested(h)):
        return False
    if any(isinstance(n, (ast.FunctionDef, ast.AsyncFunctionDef, ast.Lambda, ast.ClassDef)) for n in ast.walk(h) if n is not h):
        return False  # closures over helper locals: renaming would have to follow them
    if len(rets) > 1:
        return False
    if rets and h.body[-1] is not rets[0]:
        return False
    return True


def _helper_of(fi: FuncInfo, call: ast.Call) -> FuncInfo | None:
    m = fi.module
    f = call.func
    if isinstance(f, ast.Name):
        c = [x for x in m.functions.values() if x.name == f.id and x.cls is None and x.parent_func is None]
    elif isinstance(f, ast.Attribute) and isinstance(f.value, ast.Name) and f.value.id in ("self", "cls") and fi.cls:
        c = [x for x in m.functions.values() if x.name == f.attr and x.cls == fi.cls and x.parent_func is None]
    else:
        return None
    if len(c) != 1 or c[0].node is fi.node:
        return None
    return c[0]


def _expand(fi: FuncInfo, caller_names: set[str], st: ast.stmt, select: Callable[[FuncInfo, ast.Call, ast.stmt], bool]) -> list[ast.stmt] | None:
    if isinstance(st, ast.Assign) and isinstance(st.value, ast.Call):
        call, targets = st.value, st.targets
    elif isinstance(st, ast.AnnAssign) and isinstance(st.value, ast.Call):
        call, targets = st.value, [st.target]
    elif isinstance(st, ast.Expr) and isinstance(st.value, ast.Call):
        call, targets = st.value, []
    elif isinstance(st, ast.Return) and isinstance(st.value, ast.Call):
        call, targets = st.value, []
    else:
        return None
    h = _helper_of(fi, call)
    if h is None or not single_exit(h.node) or not select(h, call, st):
        return None
    hn: ast.FunctionDef = copy.deepcopy(h.node)  # type: ignore[assignment]
    is_method = h.cls is not None and not any(isinstance(d, ast.Name) and d.id == "staticmethod" for d in hn.decorator_list)
    params = [a.arg for a in hn.args.args]
    if is_method and params:
        recv = params[0]
        params = params[1:]
        if recv not in ("self", "cls"):
            return None
    if any(isinstance(a, ast.Starred) for a in call.args) or any(k.arg is None for k in call.keywords) or len(call.args) > len(params):
        return None
    bound: dict[str, ast.AST] = dict(zip(params, call.args))
    for k in call.keywords:
        if k.arg not in params or k.arg in bound:
            return None
        bound[k.arg] = k.value  # type: ignore[index]
    defaults = dict(zip(reversed([a.arg for a in hn.args.args]), reversed(hn.args.defaults)))
    for a in hn.args.kwonlyargs:
        return None
    for p in params:
        if p not in bound:
            if p not in defaults:
                return None
            bound[p] = defaults[p]
    rebinds = {n.id for n in walk_no_nested(hn) if isinstance(n, ast.Name) and isinstance(n.ctx, (ast.Store, ast.Del))}
    helper_locals = _local_names(hn) - set(params) - {"self", "cls"}
    rename: dict[str, str] = {}
    for nm in sorted(helper_locals):
        if nm in caller_names:
            new = nm + "__" + h.name.strip("_")
            while new in caller_names:
                new += "_"
            rename[nm] = new
    subst: dict[str, ast.AST] = {}
    prologue: list[ast.stmt] = []
    for p in params:
        arg = bound[p]
        if isinstance(arg, ast.Name) and arg.id == p:
            continue
        if p not in rebinds and isinstance(arg, (ast.Name, ast.Constant)):
            subst[p] = arg
            continue
        tgt = p
        if p in caller_names:
            tgt = p + "__" + h.name.strip("_")
            while tgt in caller_names:
                tgt += "_"
            rename[p] = tgt
        asg = ast.Assign(targets=[ast.Name(id=tgt, ctx=ast.Store())], value=copy.deepcopy(arg), lineno=st.lineno, col_offset=st.col_offset, end_lineno=st.lineno, end_col_offset=st.col_offset)
        prologue.append(asg)

    class R(ast.NodeTransformer):
        def visit_Name(self, n: ast.Name):  # noqa: N802
            if n.id in subst and isinstance(n.ctx, ast.Load):
                return ast.copy_location(copy.deepcopy(subst[n.id]), n)
            if n.id in rename:
                return ast.copy_location(ast.Name(id=rename[n.id], ctx=n.ctx), n)
            return n

        def visit_ExceptHandler(self, n: ast.ExceptHandler):  # noqa: N802
            self.generic_visit(n)
            if n.name in rename:
                n.name = rename[n.name]
            return n

    body = [b for b in hn.body]
    if body and isinstance(body[0], ast.Expr) and isinstance(body[0].value, ast.Constant) and isinstance(body[0].value.value, str):
        body = body[1:]
    ret_value: ast.AST | None = None
    if body and isinstance(body[-1], ast.Return):
        ret_value = body[-1].value
        body = body[:-1]
    new_body = [R().visit(b) for b in body]
    out: list[ast.stmt] = prologue + new_body
    if isinstance(st, ast.Return):
        fin = ast.Return(value=R().visit(ret_value) if ret_value is not None else None)
        ast.copy_location(fin, st)
        out.append(fin)
    elif targets:
        val = R().visit(ret_value) if ret_value is not None else ast.Constant(value=None)
        if isinstance(st, ast.AnnAssign):
            fin: ast.stmt = ast.AnnAssign(target=st.target, annotation=st.annotation, value=val, simple=st.simple)
            ast.copy_location(fin, st)
            out.append(fin)
        elif len(targets) == 1 and isinstance(targets[0], ast.Tuple) and isinstance(val, ast.Tuple) and len(val.elts) == len(targets[0].elts) and all(isinstance(t, ast.Name) for t in targets[0].elts) and not ({t.id for t in targets[0].elts} & {x.id for x in ast.walk(val) if isinstance(x, ast.Name)}):
            # a, b = x, y  with targets that do not occur on the right: one plain assignment per element
            for t, v in zip(targets[0].elts, val.elts):
                fin = ast.Assign(targets=[t], value=v)
                ast.copy_location(fin, st)
                out.append(fin)
        else:
            fin = ast.Assign(targets=targets, value=val)
            ast.copy_location(fin, st)
            out.append(fin)
    elif ret_value is not None and not isinstance(ret_value, (ast.Constant, ast.Name)):
        e = ast.Expr(value=R().visit(ret_value))
        ast.copy_location(e, st)
        out.append(e)
    for o in out:
        ast.fix_missing_locations(o)
    caller_names |= set(rename.values()) | helper_locals
    return out or [ast.copy_location(ast.Pass(), st)]


def inline_helpers(fi: FuncInfo, select: Callable[[FuncInfo, ast.Call, ast.stmt], bool] | None = None, rounds: int = 3) -> tuple[FuncInfo, list[str]]:
    """copy of `fi` with selected single-exit helpers of the same class / module inlined at statement position; also returns
    the qualified names of the helpers that were inlined (for the evidence)"""
    sel = select or (lambda h, c, st: True)
    node = copy.deepcopy(fi.node)
    inlined: list[str] = []
    view = replace(fi, node=node)
    for _ in range(rounds):
        names = _all_names(node)
        changed = False

        def walk(stmts: list[ast.stmt]) -> list[ast.stmt]:
            nonlocal changed
            out: list[ast.stmt] = []
            for st in stmts:
                exp = _expand(view, names, st, lambda h, c, s: sel(h, c, s))
                if exp is not None:
                    h = _helper_of(view, st.value)  # type: ignore[attr-defined]
                    inlined.append(h.qualname if h else "?")
                    out.extend(exp)
                    changed = True
                    continue
                for f in ("body", "orelse", "finalbody"):
                    v = getattr(st, f, None)
                    if isinstance(v, list) and v and isinstance(v[0], ast.stmt) and not isinstance(st, (ast.FunctionDef, ast.AsyncFunctionDef, ast.ClassDef)):
                        setattr(st, f, walk(v))
                if isinstance(st, ast.Try):
                    for hd in st.handlers:
                        hd.body = walk(hd.body)
                if st.__class__.__name__ == "Match":
                    for case in st.cases:  # type: ignore[attr-defined]
                        case.body = walk(case.body)
                out.append(st)
            return out

        node.body = walk(node.body)  # type: ignore[attr-defined]
        if not changed:
            break
    for parent in ast.walk(node):
        for child in ast.iter_child_nodes(parent):
            child._parent = parent  # type: ignore[attr-defined]
    node._parent = getattr(fi.node, "_parent", None)  # type: ignore[attr-defined]
    return view, inlined
