"""Path-sensitive reachability over a function's CFG with a small fact state.

State = (CFG node, set of condition texts known to hold, constant boolean flags). Facts are the conjuncts established by the
branch edges taken ("x < len(s)", "!done" ...), killed when a variable they mention is assigned. Constant boolean locals
(`matched = False ... matched = True`) are tracked so that the edge contradicting a known flag is not followed, and a test whose
conjuncts are all already known has no false edge. The exploration is a graph search over abstract states (visited set), so
loops are handled by fixpoint and no path is enumerated twice.
"""
from __future__ import annotations

import ast
from typing import Callable, Iterable

from .cfg import CFG
from .source import AnalysisError, walk_no_nested

_FLIP = {ast.Lt: ">=", ast.LtE: ">", ast.Gt: "<=", ast.GtE: "<", ast.Eq: "!=", ast.NotEq: "==", ast.In: "not in", ast.NotIn: "in", ast.Is: "is not", ast.IsNot: "is"}
_SYM = {ast.Lt: "<", ast.LtE: "<=", ast.Gt: ">", ast.GtE: ">=", ast.Eq: "==", ast.NotEq: "!=", ast.In: "in", ast.NotIn: "not in", ast.Is: "is", ast.IsNot: "is not"}


def conjuncts(t: ast.AST | None, truth: bool) -> list[str]:
    """facts established by `t` evaluating to `truth`; comparisons are negated symbolically, anything else as '!text'"""
    if t is None:
        return []
    if isinstance(t, ast.UnaryOp) and isinstance(t.op, ast.Not):
        return conjuncts(t.operand, not truth)
    if isinstance(t, ast.BoolOp):
        if (isinstance(t.op, ast.And) and truth) or (isinstance(t.op, ast.Or) and not truth):
            out: list[str] = []
            for v in t.values:
                out += conjuncts(v, truth)
            return out
        return []
    if isinstance(t, ast.Compare) and len(t.ops) == 1 and type(t.ops[0]) in _SYM:
        sym = _SYM[type(t.ops[0])] if truth else _FLIP[type(t.ops[0])]
        return [f"{ast.unparse(t.left)} {sym} {ast.unparse(t.comparators[0])}"]
    if isinstance(t, ast.NamedExpr):
        return conjuncts(t.target, truth)
    txt = ast.unparse(t)
    return [txt] if truth else ["!" + txt]


def negate(fact: str) -> str:
    if fact.startswith("!"):
        return fact[1:]
    try:
        t = ast.parse(fact, mode="eval").body
    except SyntaxError:
        return "!" + fact
    c = conjuncts(t, False)
    return c[0] if len(c) == 1 else "!" + fact


_NAMES_CACHE: dict[str, frozenset[str]] = {}


def names_of_text(f: str) -> frozenset[str]:
    r = _NAMES_CACHE.get(f)
    if r is None:
        r = frozenset(_names_of_text_uncached(f))
        _NAMES_CACHE[f] = r
    return r


def _names_of_text_uncached(f: str) -> set[str]:
    try:
        tree = ast.parse(f.lstrip("!"), mode="eval")
    except SyntaxError:
        return set()
    return {n.id for n in ast.walk(tree) if isinstance(n, ast.Name)}


def assigned(a: ast.AST) -> set[str]:
    out: set[str] = set()
    for n in walk_no_nested(a):
        if isinstance(n, (ast.Assign, ast.AugAssign, ast.AnnAssign)):
            tgts = n.targets if isinstance(n, ast.Assign) else [n.target]
            for t in tgts:
                if isinstance(t, (ast.Tuple, ast.List)):
                    out |= {x.id for x in ast.walk(t) if isinstance(x, ast.Name)}
                else:
                    base = t
                    while isinstance(base, (ast.Attribute, ast.Subscript, ast.Starred)):
                        base = base.value
                    if isinstance(base, ast.Name):
                        out.add(base.id)
        elif isinstance(n, ast.NamedExpr) and isinstance(n.target, ast.Name):
            out.add(n.target.id)
    return out


def expression_context_facts(use: ast.AST) -> set[str]:
    """facts that hold when `use` is evaluated because of short-circuit operators / conditional expressions around it"""
    facts: set[str] = set()
    cur: ast.AST | None = use
    while cur is not None and not isinstance(cur, ast.stmt):
        par = getattr(cur, "_parent", None)
        if isinstance(par, ast.BoolOp) and cur in par.values:
            for prev in par.values[: par.values.index(cur)]:
                facts |= set(conjuncts(prev, isinstance(par.op, ast.And)))
        if isinstance(par, ast.IfExp):
            if par.body is cur:
                facts |= set(conjuncts(par.test, True))
            elif par.orelse is cur:
                facts |= set(conjuncts(par.test, False))
        if isinstance(par, (ast.ListComp, ast.GeneratorExp, ast.SetComp, ast.DictComp)):
            for g in par.generators:
                for c in g.ifs:
                    if c is not cur:
                        facts |= set(conjuncts(c, True))
        cur = par
    return facts


State = tuple[int, frozenset[str], tuple[tuple[str, bool], ...]]


class Explorer:
    def __init__(self, cfg: CFG, relevant: Callable[[str], bool] | None = None, budget: int = 300000, gen: Callable[[object, frozenset[str]], Iterable[str]] | None = None):
        self.cfg = cfg
        self.relevant = relevant or (lambda f: True)
        self.gen = gen  # gen(node, facts before the statement) -> facts the statement establishes (added after the kill)
        self.budget = budget
        self.parent: dict[State, State | None] = {}

    def explore(self, starts: Iterable[State], visit: Callable[[State], str | None], follow_exc: bool = False) -> None:
        """visit(state) -> 'prune' to stop expanding this state; anything else continues"""
        cfg = self.cfg
        work: list[State] = []
        for s in starts:
            if s not in self.parent:
                self.parent[s] = None
                work.append(s)
        steps = 0
        while work:
            st = work.pop()
            steps += 1
            if steps > self.budget:
                raise AnalysisError("path-state exploration exceeded its budget")
            n, facts, flags = st
            if visit(st) == "prune":
                continue
            node = cfg.nodes[n]
            fl = dict(flags)
            f1 = facts
            if node.kind in ("stmt", "with") and node.ast is not None:
                asg = assigned(node.ast)
                if asg:
                    f1 = frozenset(f for f in f1 if not (names_of_text(f) & asg))
                    for a in asg:
                        fl.pop(a, None)
                a0 = node.ast
                if isinstance(a0, ast.Assign) and len(a0.targets) == 1 and isinstance(a0.targets[0], ast.Name) and isinstance(a0.value, ast.Constant) and isinstance(a0.value.value, bool):
                    fl[a0.targets[0].id] = a0.value.value
                if self.gen is not None:
                    g = frozenset(self.gen(node, facts))
                    if g:
                        f1 = f1 | g
            if node.kind == "iter" and isinstance(node.owner, (ast.For, ast.AsyncFor)):
                tg = {x.id for x in ast.walk(node.owner.target) if isinstance(x, ast.Name)}
                f1 = frozenset(f for f in f1 if not (names_of_text(f) & tg))
            for s, lab in cfg.succ[n]:
                if lab == "x" and not (follow_exc and cfg.nodes[s].kind == "handler"):
                    continue
                f2 = f1
                if node.kind == "test" and node.ast is not None and lab in ("t", "f"):
                    truth = lab == "t"
                    t = node.ast
                    asg_t = assigned(t)
                    if asg_t:
                        f2 = frozenset(f for f in f2 if not (names_of_text(f) & asg_t))
                    known = None
                    if isinstance(t, ast.Name) and t.id in fl:
                        known = fl[t.id]
                    elif isinstance(t, ast.UnaryOp) and isinstance(t.op, ast.Not) and isinstance(t.operand, ast.Name) and t.operand.id in fl:
                        known = not fl[t.operand.id]
                    if known is not None and known != truth:
                        continue
                    cj_true = conjuncts(t, True)
                    if not truth and cj_true and all(c in f2 for c in cj_true):
                        continue  # implied by the path: no false edge
                    add = conjuncts(t, truth)
                    if any(negate(c) in f2 for c in add):
                        continue  # contradicts the path
                    f2 = f2 | frozenset(c for c in add if self.relevant(c))
                nxt: State = (s, f2, tuple(sorted(fl.items())))
                if nxt not in self.parent:
                    self.parent[nxt] = st
                    work.append(nxt)

    def path_to(self, st: State) -> list[int]:
        out = []
        cur: State | None = st
        while cur is not None:
            out.append(cur[0])
            cur = self.parent.get(cur)
        return out[::-1]
