"""E8, dispatch tables: a call through a constant table of helpers is read as the if/elif chain it abbreviates.

    value = _READERS.get(token_type, _read_verbatim)(match)        if token_type == TokenType.STRING:
                                                             ==>       value = _read_string(match)
                                                                    elif token_type in (TokenType.A, TokenType.B): ...
                                                                    else:
                                                                        value = _read_verbatim(match)

Only tables that the pinned tree cannot have are rewritten: a module- or class-level dict display, bound once and never written
again, with at least one value that is a lambda or a function the pinned tree does not know (octacheck/known_functions.json).
The call forms read are `T[k](args)`, `T.get(k, default)(args)` and the two-step spellings `h = T[k]` / `h = T.get(k[, d])`
followed by the statement that calls `h`, or by `if h is None: A else: ... h(args) ...`. A missing key keeps its meaning (`raise
KeyError(k)` / the default / the None branch). The chain tests `k == K` (one key) or `k in (K1, K2)` (several keys, same helper)
- what the dict lookup does for hashable constants and enum members. The rewritten function is then subject to the ordinary
helper inlining, so the rules see the helpers' statements under the branch of their key. No-op on the pinned tree.
"""
from __future__ import annotations

import ast
from typing import Iterable

from .inline import clone

_MAX_KEYS = 48


class Table:
    def __init__(self, name: str, cls: str | None, node: ast.Dict):
        self.name, self.cls, self.node = name, cls, node
        self.rows: list[tuple[ast.AST, ast.AST]] = [(k, v) for k, v in zip(node.keys, node.values) if k is not None]


def _value_name(v: ast.AST) -> str | None:
    if isinstance(v, ast.Name):
        return v.id
    if isinstance(v, ast.Attribute) and isinstance(v.value, ast.Name):
        return v.attr
    return None


def _collect_tables(tree: ast.Module, new_names: set[str]) -> dict[tuple[str | None, str], Table]:
    out: dict[tuple[str | None, str], Table] = {}

    def scan(body: Iterable[ast.stmt], cls: str | None) -> None:
        for st in body:
            if isinstance(st, ast.ClassDef) and cls is None:
                scan(st.body, st.name)
                continue
            tgt, val = None, None
            if isinstance(st, ast.Assign) and len(st.targets) == 1 and isinstance(st.targets[0], ast.Name):
                tgt, val = st.targets[0].id, st.value
            elif isinstance(st, ast.AnnAssign) and isinstance(st.target, ast.Name) and st.value is not None:
                tgt, val = st.target.id, st.value
            if tgt is None or not isinstance(val, ast.Dict) or not val.keys or len(val.keys) > _MAX_KEYS:
                continue
            if any(k is None or not isinstance(k, (ast.Attribute, ast.Constant, ast.Name)) for k in val.keys):
                continue
            if not all(isinstance(v, ast.Lambda) or _value_name(v) for v in val.values):
                continue
            if not any(isinstance(v, ast.Lambda) or _value_name(v) in new_names for v in val.values):
                continue
            t = Table(tgt, cls, val)
            t.target = st.targets[0] if isinstance(st, ast.Assign) else st.target  # type: ignore[attr-defined]
            out[(cls, tgt)] = t

    scan(tree.body, None)
    # never written again anywhere in the module (any other store to the name, item/attribute store through it, or mutator call)
    for n in ast.walk(tree):
        nm = None
        if isinstance(n, ast.Name) and isinstance(n.ctx, (ast.Store, ast.Del)):
            nm = n.id
        elif isinstance(n, (ast.Subscript, ast.Attribute)) and isinstance(n.ctx, (ast.Store, ast.Del)):
            b = n.value
            nm = b.id if isinstance(b, ast.Name) else b.attr if isinstance(b, ast.Attribute) else None
            if isinstance(n, ast.Attribute) and nm is None:
                nm = n.attr
            elif isinstance(n, ast.Attribute) and any(k[1] == n.attr for k in out):
                nm = n.attr
        elif isinstance(n, ast.Call) and isinstance(n.func, ast.Attribute) and n.func.attr in ("update", "pop", "popitem", "clear", "setdefault", "__setitem__", "__delitem__"):
            b = n.func.value
            nm = b.id if isinstance(b, ast.Name) else b.attr if isinstance(b, ast.Attribute) else None
        if nm is None:
            continue
        for key in [k for k in out if k[1] == nm]:
            if n is not out[key].target:  # type: ignore[attr-defined]
                del out[key]
    return out


def _table_ref(e: ast.AST, tables: dict[tuple[str | None, str], Table], cls: str | None) -> Table | None:
    if isinstance(e, ast.Name):
        return tables.get((None, e.id))
    if isinstance(e, ast.Attribute) and isinstance(e.value, ast.Name):
        if e.value.id in ("self", "cls") and cls is not None:
            return tables.get((cls, e.attr))
        return tables.get((e.value.id, e.attr))
    if isinstance(e, ast.Attribute) and isinstance(e.value, ast.Call) and isinstance(e.value.func, ast.Name) and e.value.func.id == "type" and cls is not None:
        return tables.get((cls, e.attr))  # type(self).TABLE
    return None


def _pure_key(k: ast.AST) -> bool:
    if isinstance(k, (ast.Name, ast.Constant)):
        return True
    if isinstance(k, ast.Attribute):
        return _pure_key(k.value)
    if isinstance(k, ast.Subscript):
        return _pure_key(k.value) and _pure_key(k.slice)
    if isinstance(k, ast.Call) and isinstance(k.func, ast.Name) and k.func.id == "type" and len(k.args) == 1 and not k.keywords:
        return _pure_key(k.args[0])
    return False


class _Lookup:
    """one table lookup: the table, the key expression, the default (a function expression, the marker 'none' for .get(k), or
    'raise' for T[k])"""

    def __init__(self, table: Table, key: ast.AST, default: object):
        self.table, self.key, self.default = table, key, default


def _as_lookup(f: ast.AST, tables, cls) -> _Lookup | None:
    if isinstance(f, ast.Subscript) and not isinstance(f.slice, ast.Slice):
        t = _table_ref(f.value, tables, cls)
        if t is not None and _pure_key(f.slice):
            return _Lookup(t, f.slice, "raise")
    if isinstance(f, ast.Call) and isinstance(f.func, ast.Attribute) and f.func.attr == "get" and 1 <= len(f.args) <= 2 and not f.keywords:
        t = _table_ref(f.func.value, tables, cls)
        if t is not None and _pure_key(f.args[0]):
            if len(f.args) == 1 or (isinstance(f.args[1], ast.Constant) and f.args[1].value is None):
                return _Lookup(t, f.args[0], "none")
            if isinstance(f.args[1], ast.Lambda) or _value_name(f.args[1]):
                return _Lookup(t, f.args[0], f.args[1])
    return None


def _simple_arg(a: ast.AST) -> bool:
    return isinstance(a, (ast.Name, ast.Constant)) or (isinstance(a, ast.Attribute) and _simple_arg(a.value))


def _apply(fn_expr: ast.AST, call: ast.Call, table: Table) -> ast.AST:
    """the expression `fn_expr(<call's arguments>)`, beta-reduced for a lambda with simple arguments; a class-level helper called
    with an explicit self is written as the method call it is"""
    if isinstance(fn_expr, ast.Lambda) and not call.keywords and not fn_expr.args.vararg and not fn_expr.args.kwarg and not fn_expr.args.kwonlyargs and len(fn_expr.args.args) == len(call.args) and all(_simple_arg(a) for a in call.args) and not any(isinstance(a, ast.Starred) for a in call.args):
        sub = {p.arg: a for p, a in zip(fn_expr.args.args, call.args)}
        body = clone(fn_expr.body)

        class R(ast.NodeTransformer):
            def visit_Name(self, n: ast.Name):  # noqa: N802
                if isinstance(n.ctx, ast.Load) and n.id in sub:
                    return clone(sub[n.id])
                return n

            def visit_Lambda(self, n: ast.Lambda):  # noqa: N802
                return n

        return R().visit(body)
    args = [clone(a) for a in call.args]
    kws = [clone(k) for k in call.keywords]
    nm = _value_name(fn_expr)
    if table.cls is not None and nm and args and isinstance(args[0], ast.Name) and args[0].id == "self" and (isinstance(fn_expr, ast.Name) or (isinstance(fn_expr, ast.Attribute) and isinstance(fn_expr.value, ast.Name) and fn_expr.value.id == table.cls)):
        return ast.Call(func=ast.Attribute(value=ast.Name(id="self", ctx=ast.Load()), attr=nm, ctx=ast.Load()), args=args[1:], keywords=kws)
    return ast.Call(func=clone(fn_expr), args=args, keywords=kws)


def _groups(table: Table) -> list[tuple[list[ast.AST], ast.AST]]:
    """rows grouped by helper (same text), in first-occurrence order; a key that occurs twice keeps its last value, as in a dict"""
    last: dict[str, ast.AST] = {}
    order: list[str] = []
    keynode: dict[str, ast.AST] = {}
    for k, v in table.rows:
        kt = ast.unparse(k)
        if kt not in last:
            order.append(kt)
        last[kt] = v
        keynode[kt] = k
    groups: list[tuple[list[ast.AST], ast.AST]] = []
    idx: dict[str, int] = {}
    for kt in order:
        v = last[kt]
        vt = ast.unparse(v)
        if vt in idx and not isinstance(v, ast.Lambda):
            groups[idx[vt]][0].append(keynode[kt])
        else:
            idx[vt] = len(groups)
            groups.append(([keynode[kt]], v))
    return groups


def _test(key: ast.AST, ks: list[ast.AST]) -> ast.AST:
    is_type = isinstance(key, ast.Call)
    if len(ks) == 1:
        return ast.Compare(left=clone(key), ops=[ast.Is() if is_type else ast.Eq()], comparators=[clone(ks[0])])
    return ast.Compare(left=clone(key), ops=[ast.In()], comparators=[ast.Tuple(elts=[clone(k) for k in ks], ctx=ast.Load())])


def _replace_node(root: ast.AST, old: ast.AST, new: ast.AST) -> ast.AST:
    """clone of root in which the node `old` (by identity) is replaced by `new`"""

    def cp(n):
        if n is old:
            return clone(new)
        if isinstance(n, ast.AST):
            out = type(n)()
            for f in n._fields:
                if hasattr(n, f):
                    setattr(out, f, cp(getattr(n, f)))
            for a in ("lineno", "col_offset", "end_lineno", "end_col_offset", "_qualname", "_inline_block", "_was_return", "_caller_stmt", "_implicit_raise"):
                if hasattr(n, a):
                    setattr(out, a, getattr(n, a))
            return out
        if isinstance(n, list):
            return [cp(x) for x in n]
        return n

    return cp(root)


def _chain(lk: _Lookup, make: "callable", miss: list[ast.stmt] | None, at: ast.stmt) -> ast.stmt:
    """if/elif chain over the table's helpers; make(fn_expr) -> branch body; miss = body when the key is absent"""
    groups = _groups(lk.table)
    if miss is None:
        if lk.default == "raise":
            miss = [ast.Raise(exc=ast.Call(func=ast.Name(id="KeyError", ctx=ast.Load()), args=[clone(lk.key)], keywords=[]), cause=None)]
            miss[0]._implicit_raise = True  # type: ignore[attr-defined]  # (what the subscript did implicitly: not a new explicit raise)
        elif lk.default == "none":
            miss = [ast.Raise(exc=ast.Call(func=ast.Name(id="TypeError", ctx=ast.Load()), args=[ast.Constant(value="'NoneType' object is not callable")], keywords=[]), cause=None)]
            miss[0]._implicit_raise = True  # type: ignore[attr-defined]
        else:
            miss = make(lk.default)
    node: ast.If | None = None
    first: ast.If | None = None
    for ks, v in groups:
        cur = ast.If(test=_test(lk.key, ks), body=make(v), orelse=[])
        if node is None:
            first = cur
        else:
            node.orelse = [cur]
        node = cur
    assert node is not None and first is not None
    node.orelse = miss
    for n in ast.walk(first):
        if not hasattr(n, "lineno") or getattr(n, "lineno", None) is None:
            pass
    ast.copy_location(first, at)
    for n in ast.walk(first):
        if isinstance(n, (ast.expr, ast.stmt)) and not hasattr(n, "lineno"):
            ast.copy_location(n, at)
    ast.fix_missing_locations(first)
    first._dispatch_chain = lk.table.name  # type: ignore[attr-defined]
    return first


_SIMPLE = (ast.Assign, ast.AugAssign, ast.AnnAssign, ast.Return, ast.Expr)


def _calls_in(st: ast.AST) -> list[ast.Call]:
    out: list[ast.Call] = []

    def walk(n: ast.AST) -> None:
        for c in ast.iter_child_nodes(n):
            if isinstance(c, (ast.Lambda, ast.FunctionDef, ast.AsyncFunctionDef, ast.ClassDef, ast.ListComp, ast.SetComp, ast.DictComp, ast.GeneratorExp)):
                continue
            if isinstance(c, ast.Call):
                out.append(c)
            walk(c)

    walk(st)
    return out


def _stores(st: ast.AST) -> set[str]:
    return {n.id for n in ast.walk(st) if isinstance(n, ast.Name) and isinstance(n.ctx, (ast.Store, ast.Del))}


def _loads(st: ast.AST, name: str) -> list[ast.Name]:
    return [n for n in ast.walk(st) if isinstance(n, ast.Name) and n.id == name and isinstance(n.ctx, ast.Load)]


def _none_test(t: ast.AST, h: str) -> bool | None:
    """True: the test holds iff h is None; False: iff h is not None"""
    if isinstance(t, ast.Compare) and len(t.ops) == 1 and isinstance(t.left, ast.Name) and t.left.id == h and isinstance(t.comparators[0], ast.Constant) and t.comparators[0].value is None:
        if isinstance(t.ops[0], (ast.Is, ast.Eq)):
            return True
        if isinstance(t.ops[0], (ast.IsNot, ast.NotEq)):
            return False
    if isinstance(t, ast.Name) and t.id == h:
        return False
    if isinstance(t, ast.UnaryOp) and isinstance(t.op, ast.Not) and isinstance(t.operand, ast.Name) and t.operand.id == h:
        return True
    return None


def _subst_calls(stmts: list[ast.stmt], h: str, fn_expr: ast.AST, table: Table) -> list[ast.stmt] | None:
    """clones of stmts with every call `h(args)` replaced by fn_expr applied; None when h is used in any other way"""
    out = []
    for st in stmts:
        cur: ast.AST = st
        while True:
            calls = [c for c in ast.walk(cur) if isinstance(c, ast.Call) and isinstance(c.func, ast.Name) and c.func.id == h]
            if not calls:
                break
            cur = _replace_node(cur, calls[0], _apply(fn_expr, calls[0], table))
        if cur is st:
            cur = clone(st)
        if _loads(cur, h):
            return None
        out.append(cur)
    return out  # type: ignore[return-value]


def _rewrite_block(body: list[ast.stmt], tables, cls: str | None, fn: ast.AST, counter: list[int]) -> list[ast.stmt]:
    out: list[ast.stmt] = []
    i = 0
    while i < len(body):
        st = body[i]
        # --- two-step: h = T[k] / T.get(k[, d]) ; <use>
        if isinstance(st, ast.Assign) and len(st.targets) == 1 and isinstance(st.targets[0], ast.Name) and i + 1 < len(body):
            h = st.targets[0].id
            lk = _as_lookup(st.value, tables, cls)
            nxt = body[i + 1]
            if lk is not None and isinstance(nxt, (ast.Assign, ast.Return)) and isinstance(nxt.value, ast.IfExp) and _none_test(nxt.value.test, h) is not None:
                # `x = A if h is None else h(a)`: the statement form of the same choice
                def with_value(v: ast.AST, nxt=nxt) -> ast.stmt:
                    c_ = ast.Assign(targets=[clone(t_) for t_ in nxt.targets], value=clone(v)) if isinstance(nxt, ast.Assign) else ast.Return(value=clone(v))
                    return ast.fix_missing_locations(ast.copy_location(c_, nxt))
                nxt = ast.fix_missing_locations(ast.copy_location(ast.If(test=clone(nxt.value.test), body=[with_value(nxt.value.body)], orelse=[with_value(nxt.value.orelse)]), nxt))
            if lk is not None and sum(1 for n in ast.walk(fn) if isinstance(n, ast.Name) and n.id == h and isinstance(n.ctx, ast.Store)) == 1:
                rest_uses = any(_loads(s, h) for s in body[i + 2:])
                key_names = {n.id for n in ast.walk(lk.key) if isinstance(n, ast.Name)}
                if not rest_uses and isinstance(nxt, ast.If) and _none_test(nxt.test, h) is not None:
                    none_first = _none_test(nxt.test, h)
                    a_none, a_fn = (nxt.body, nxt.orelse) if none_first else (nxt.orelse, nxt.body)
                    if not _loads(ast.Module(body=a_none, type_ignores=[]), h) and a_fn:
                        ok = True

                        def make(v, a_fn=a_fn, h=h, lk=lk):
                            r = _subst_calls(a_fn, h, v, lk.table)
                            if r is None:
                                raise _Bail()
                            return r

                        miss: list[ast.stmt] | None
                        if lk.default == "none":
                            miss = [clone(s) for s in a_none] or [ast.Pass()]
                        elif lk.default == "raise":
                            miss = None
                        else:
                            miss = None  # a default helper: h is never None, the chain's else applies the default
                        try:
                            ch = _chain(lk, make, miss, st)
                            out.append(ch)
                            counter[0] += 1
                            i += 2
                            continue
                        except _Bail:
                            pass
                elif not rest_uses and isinstance(nxt, _SIMPLE + (ast.Try, ast.With)) and _loads(nxt, h) and not (key_names & set()):
                    def make2(v, nxt=nxt, h=h, lk=lk):
                        r = _subst_calls([nxt], h, v, lk.table)
                        if r is None:
                            raise _Bail()
                        return r

                    try:
                        ch = _chain(lk, make2, None, st)
                        out.append(ch)
                        counter[0] += 1
                        i += 2
                        continue
                    except _Bail:
                        pass
        # --- direct: ... T[k](args) ... / ... T.get(k, d)(args) ...
        if isinstance(st, _SIMPLE):
            found = [(c, lk) for c in _calls_in(st) for lk in [_as_lookup(c.func, tables, cls)] if lk is not None]
            if len(found) == 1:
                c, lk = found[0]

                def make3(v, st=st, c=c, lk=lk):
                    return [_replace_node(st, c, _apply(v, c, lk.table))]

                out.append(_chain(lk, make3, None, st))
                counter[0] += 1
                i += 1
                continue
        # --- recurse into compound statements
        for f in ("body", "orelse", "finalbody"):
            sub = getattr(st, f, None)
            if isinstance(sub, list) and sub and isinstance(sub[0], ast.stmt) and not isinstance(st, (ast.FunctionDef, ast.AsyncFunctionDef, ast.ClassDef)):
                setattr(st, f, _rewrite_block(sub, tables, cls, fn, counter))
        if isinstance(st, ast.Try):
            for hd in st.handlers:
                hd.body = _rewrite_block(hd.body, tables, cls, fn, counter)
        out.append(st)
        i += 1
    return out


class _Bail(Exception):
    pass


class _HigherOrder(ast.NodeTransformer):
    """filter(h, it) / itertools.filterfalse(h, it) / map(h, it) with h a new helper: the generator expression they stand for, so
    that h is called by name where the rules (and the helper inlining) can see it"""

    def __init__(self, new_names: set[str]):
        self.new_names = new_names
        self.count = 0
        self.k = 0

    def visit_Call(self, n: ast.Call):  # noqa: N802
        self.generic_visit(n)
        fn = n.func.id if isinstance(n.func, ast.Name) else (n.func.attr if isinstance(n.func, ast.Attribute) and isinstance(n.func.value, ast.Name) and n.func.value.id == "itertools" else None)
        if fn not in ("filter", "filterfalse", "map") or len(n.args) != 2 or n.keywords or any(isinstance(a, ast.Starred) for a in n.args):
            return n
        h = n.args[0]
        hn = h.id if isinstance(h, ast.Name) else (h.attr if isinstance(h, ast.Attribute) and isinstance(h.value, ast.Name) and h.value.id in ("self", "cls") else None)
        if hn is None or hn not in self.new_names:
            return n
        self.k += 1
        var = f"_item{self.k}"
        call = ast.Call(func=h, args=[ast.Name(id=var, ctx=ast.Load())], keywords=[])
        if fn == "map":
            elt, ifs = call, []
        else:
            elt = ast.Name(id=var, ctx=ast.Load())
            ifs = [call if fn == "filter" else ast.UnaryOp(op=ast.Not(), operand=call)]
        g = ast.GeneratorExp(elt=elt, generators=[ast.comprehension(target=ast.Name(id=var, ctx=ast.Store()), iter=n.args[1], ifs=ifs, is_async=0)])
        self.count += 1
        return ast.fix_missing_locations(ast.copy_location(g, n))


def _local_tables(fn: ast.AST, new_names: set[str]) -> list[Table]:
    """dict displays of lambdas / new helpers bound once to a local of fn and never written again"""
    out: list[Table] = []
    for st in ast.walk(fn):
        if isinstance(st, (ast.Lambda,)) :
            continue
        tgt, val = None, None
        if isinstance(st, ast.Assign) and len(st.targets) == 1 and isinstance(st.targets[0], ast.Name):
            tgt, val = st.targets[0].id, st.value
        elif isinstance(st, ast.AnnAssign) and isinstance(st.target, ast.Name) and st.value is not None:
            tgt, val = st.target.id, st.value
        if tgt is None or not isinstance(val, ast.Dict) or not val.keys or len(val.keys) > _MAX_KEYS:
            continue
        if any(k is None or not isinstance(k, (ast.Attribute, ast.Constant, ast.Name)) for k in val.keys):
            continue
        if not all(isinstance(v, ast.Lambda) or _value_name(v) for v in val.values) or not any(isinstance(v, ast.Lambda) or _value_name(v) in new_names for v in val.values):
            continue
        stores = [n for n in ast.walk(fn) if isinstance(n, ast.Name) and n.id == tgt and isinstance(n.ctx, (ast.Store, ast.Del))]
        mutated = any((isinstance(n, ast.Subscript) and isinstance(n.ctx, (ast.Store, ast.Del)) and isinstance(n.value, ast.Name) and n.value.id == tgt) or (isinstance(n, ast.Call) and isinstance(n.func, ast.Attribute) and isinstance(n.func.value, ast.Name) and n.func.value.id == tgt and n.func.attr in ("update", "pop", "popitem", "clear", "setdefault")) for n in ast.walk(fn))
        if len(stores) != 1 or mutated:
            continue
        t = Table(tgt, None, val)
        t.stmt = st  # type: ignore[attr-defined]
        out.append(t)
    return out


def _drop_stmt(fn: ast.AST, st: ast.stmt) -> None:
    for owner in ast.walk(fn):
        for f in ("body", "orelse", "finalbody"):
            v = getattr(owner, f, None)
            if isinstance(v, list) and st in v:
                v.remove(st)
                if not v and f == "body":
                    v.append(ast.copy_location(ast.Pass(), st))
                return


def desugar_dispatch(tree: ast.Module, new_names: set[str]) -> int:
    """rewrite, in place, every call through a new constant helper table; returns the number of rewritten sites"""
    ho = _HigherOrder(new_names)
    ho.visit(tree)
    for parent in ast.walk(tree):
        for child in ast.iter_child_nodes(parent):
            child._parent = parent  # type: ignore[attr-defined]
    tables = _collect_tables(tree, new_names)
    counter = [ho.count]

    def visit(body: list[ast.stmt], cls: str | None) -> None:
        for st in body:
            if isinstance(st, ast.ClassDef):
                visit(st.body, st.name)
            elif isinstance(st, (ast.FunctionDef, ast.AsyncFunctionDef)):
                local = _local_tables(st, new_names)
                tb = dict(tables)
                tb.update({(None, t.name): t for t in local if (None, t.name) not in tables})
                before = counter[0]
                st.body = _rewrite_block(st.body, tb, cls, st, counter)
                if counter[0] > before:
                    # a local table that is no longer read is dropped with its lambdas
                    for t in local:
                        if not any(isinstance(n, ast.Name) and n.id == t.name and isinstance(n.ctx, ast.Load) for n in ast.walk(st)):
                            _drop_stmt(st, t.stmt)  # type: ignore[attr-defined]

    visit(tree.body, None)
    if counter[0]:
        for parent in ast.walk(tree):
            for child in ast.iter_child_nodes(parent):
                child._parent = parent  # type: ignore[attr-defined]
    return counter[0]
