"""E8, local abbreviations of calls: one-expression closures and functools.partial objects bound to a local are read as the calls
they abbreviate.

    reject = partial(self._error_envelope, diff_only=diff_only, profile=profile)
    def refuse(code, message):                                  ==>   return self._error_envelope([{"code": "E_INPUT", "message": "..."}],
        return reject([{"code": code, "message": message}])                                       diff_only=diff_only, profile=profile)
    ...
    return refuse("E_INPUT", "...")

Only constructs the pinned tree cannot have are rewritten: nested functions whose qualified name is not in
octacheck/known_functions.json, and `partial(...)` objects (the pinned tree has none). Conditions - all checked, otherwise the code
is left as it is:
  closure g: not decorated, not a generator / async, plain positional parameters without defaults, body = [docstring] `return E`;
             the name g is bound only by the def and every use is a direct call g(a1..an) with as many plain arguments; each argument
             is a pure expression (names, constants, attribute reads, f-strings, `or`/`and`, a few builtins) - so evaluating it where
             the parameter stood instead of before the call changes nothing - and a parameter that E reads more than once or inside
             a nested scope gets a simple argument (name / constant / attribute chain).
  partial p: p is bound once, by `p = partial(F, A.., K=..)` with F a name or self.method and pure arguments over names that are not
             written after that statement; every use of p is a direct call p(a.., k=..)  ->  F(A.., a.., K=.., k=..).
Free variables of a closure are read when it is called, so substituting its body at the call is the same read.
"""
from __future__ import annotations

import ast

from .inline import clone
from .source import walk_no_nested

_PURE_BUILTINS = {"str", "repr", "len", "int", "float", "bool", "sorted", "list", "tuple", "dict", "set", "min", "max", "abs"}


def _pure(e: ast.AST) -> bool:
    for n in ast.walk(e):
        if isinstance(n, (ast.Await, ast.Yield, ast.YieldFrom, ast.NamedExpr, ast.Lambda, ast.ListComp, ast.SetComp, ast.DictComp, ast.GeneratorExp, ast.Starred)):
            return False
        if isinstance(n, ast.Call):
            f = n.func
            if isinstance(f, ast.Name) and f.id in _PURE_BUILTINS:
                continue
            if isinstance(f, ast.Attribute) and f.attr in ("join", "format", "strip", "lower", "upper", "get"):
                continue
            return False
    return True


def _simple(e: ast.AST) -> bool:
    return isinstance(e, (ast.Name, ast.Constant)) or (isinstance(e, ast.Attribute) and _simple(e.value))


def _set_parents(root: ast.AST) -> None:
    for parent in ast.walk(root):
        for child in ast.iter_child_nodes(parent):
            child._parent = parent  # type: ignore[attr-defined]


def _replace_in_parent(old: ast.AST, new: ast.AST) -> None:
    par = old._parent  # type: ignore[attr-defined]
    for f, v in ast.iter_fields(par):
        if v is old:
            setattr(par, f, new)
        elif isinstance(v, list):
            for i, x in enumerate(v):
                if x is old:
                    v[i] = new
    new._parent = par  # type: ignore[attr-defined]


def _remove_stmt(st: ast.stmt) -> None:
    par = st._parent  # type: ignore[attr-defined]
    for f in ("body", "orelse", "finalbody"):
        v = getattr(par, f, None)
        if isinstance(v, list) and st in v:
            v.remove(st)
            if not v and f == "body":
                v.append(ast.copy_location(ast.Pass(), st))


def _reduce_closures_in(fn: ast.AST, is_new) -> int:
    count = 0
    for g in [n for n in walk_no_nested(fn, include_root=False) if isinstance(n, ast.FunctionDef)]:
        if not is_new(g) or g.decorator_list:
            continue
        a = g.args
        if a.vararg or a.kwarg or a.kwonlyargs or a.defaults or a.kw_defaults or a.posonlyargs:
            continue
        body = [s for s in g.body if not (isinstance(s, ast.Expr) and isinstance(s.value, ast.Constant) and isinstance(s.value.value, str))]
        if body and not any(isinstance(n, (ast.Return, ast.Yield, ast.YieldFrom, ast.Await, ast.Nonlocal, ast.Global, ast.FunctionDef, ast.AsyncFunctionDef, ast.ClassDef, ast.Lambda)) for b in body for n in ast.walk(b)) and all(isinstance(b, (ast.Expr, ast.Raise, ast.If)) for b in body):
            # a procedure-like closure (statements only, no result): `g(a..)` as a statement is those statements
            if _reduce_procedure(fn, g, body):
                count += 1
            continue
        if len(body) != 1 or not isinstance(body[0], ast.Return) or body[0].value is None:
            continue
        expr = body[0].value
        if any(isinstance(n, (ast.Yield, ast.YieldFrom, ast.Await)) for n in ast.walk(expr)):
            continue
        params = [p.arg for p in a.args]
        # every other occurrence of the name inside fn: a direct call with plain positional arguments
        uses = [n for n in ast.walk(fn) if isinstance(n, ast.Name) and n.id == g.name and not any(x is n for x in ast.walk(g))]
        if not uses or any(not isinstance(n.ctx, ast.Load) for n in uses):
            continue
        calls = []
        ok = True
        for u in uses:
            c = getattr(u, "_parent", None)
            if not (isinstance(c, ast.Call) and c.func is u and len(c.args) == len(params) and not c.keywords and all(_pure(x) for x in c.args)):
                ok = False
                break
            calls.append(c)
        if not ok or any(isinstance(n, ast.Name) and n.id == g.name for n in ast.walk(expr)):
            continue
        # parameter uses in the body
        many_or_nested: set[str] = set()
        for p in params:
            occ = [n for n in ast.walk(expr) if isinstance(n, ast.Name) and n.id == p]
            if any(isinstance(n.ctx, ast.Store) for n in occ):
                ok = False
            nested = any(isinstance(s, (ast.Lambda, ast.ListComp, ast.SetComp, ast.DictComp, ast.GeneratorExp)) and any(isinstance(x, ast.Name) and x.id == p for x in ast.walk(s)) for s in ast.walk(expr))
            if len(occ) > 1 or nested:
                many_or_nested.add(p)
        if not ok or any(not _simple(c.args[i]) for c in calls for i, p in enumerate(params) if p in many_or_nested):
            continue
        for c in calls:
            sub = dict(zip(params, c.args))

            class R(ast.NodeTransformer):
                def visit_Name(self, n: ast.Name):  # noqa: N802
                    if isinstance(n.ctx, ast.Load) and n.id in sub:
                        return ast.copy_location(clone(sub[n.id]), n)
                    return n

            new = R().visit(clone(expr))
            for x in ast.walk(new):
                if isinstance(x, (ast.expr, ast.stmt)):
                    ast.copy_location(x, c)
            ast.fix_missing_locations(new)
            _replace_in_parent(c, new)
        _remove_stmt(g)
        _set_parents(fn)
        count += 1
    return count


def _reduce_procedure(fn: ast.AST, g: ast.FunctionDef, body: list[ast.stmt]) -> bool:
    params = [p.arg for p in g.args.args]
    if any(isinstance(n, ast.Name) and isinstance(n.ctx, (ast.Store, ast.Del)) for b in body for n in ast.walk(b)):
        return False  # the closure binds locals of its own
    uses = [n for n in ast.walk(fn) if isinstance(n, ast.Name) and n.id == g.name and not any(x is n for x in ast.walk(g))]
    if not uses:
        return False
    sites = []
    for u in uses:
        c = getattr(u, "_parent", None)
        e = getattr(c, "_parent", None)
        if not (isinstance(u.ctx, ast.Load) and isinstance(c, ast.Call) and c.func is u and isinstance(e, ast.Expr) and e.value is c and len(c.args) == len(params) and not c.keywords and all(_pure(x) for x in c.args)):
            return False
        sites.append((e, c))
    for p in params:
        occ = [n for b in body for n in ast.walk(b) if isinstance(n, ast.Name) and n.id == p]
        if len(occ) > 1 and any(not _simple(c.args[params.index(p)]) for _e, c in sites):
            return False
    for e, c in sites:
        sub = dict(zip(params, c.args))

        class R(ast.NodeTransformer):
            def visit_Name(self, n: ast.Name):  # noqa: N802
                if isinstance(n.ctx, ast.Load) and n.id in sub:
                    return ast.copy_location(clone(sub[n.id]), n)
                return n

        new = [R().visit(clone(b)) for b in body]
        for b in new:
            for x in ast.walk(b):
                if isinstance(x, (ast.expr, ast.stmt)):
                    ast.copy_location(x, e)
            ast.fix_missing_locations(b)
        par = e._parent  # type: ignore[attr-defined]
        for f in ("body", "orelse", "finalbody"):
            v = getattr(par, f, None)
            if isinstance(v, list) and e in v:
                i = v.index(e)
                v[i:i + 1] = new
    _remove_stmt(g)
    _set_parents(fn)
    return True


def _reduce_partials_in(fn: ast.AST) -> int:
    count = 0
    for st in [n for n in walk_no_nested(fn, include_root=False) if isinstance(n, ast.Assign)]:
        if not (len(st.targets) == 1 and isinstance(st.targets[0], ast.Name) and isinstance(st.value, ast.Call)):
            continue
        f = st.value.func
        if not ((isinstance(f, ast.Name) and f.id == "partial") or (isinstance(f, ast.Attribute) and f.attr == "partial" and isinstance(f.value, ast.Name) and f.value.id == "functools")):
            continue
        pc = st.value
        if not pc.args or any(isinstance(x, ast.Starred) for x in pc.args) or any(k.arg is None for k in pc.keywords):
            continue
        target = pc.args[0]
        if not (_simple(target) and all(_pure(x) for x in pc.args[1:]) and all(_pure(k.value) for k in pc.keywords)):
            continue
        p = st.targets[0].id
        occ = [n for n in ast.walk(fn) if isinstance(n, ast.Name) and n.id == p]
        stores = [n for n in occ if isinstance(n.ctx, (ast.Store, ast.Del))]
        loads = [n for n in occ if isinstance(n.ctx, ast.Load)]
        if len(stores) != 1 or not loads:
            continue
        # the names the partial captured are not written after it
        cap = {n.id for x in list(pc.args) + [k.value for k in pc.keywords] for n in ast.walk(x) if isinstance(n, ast.Name)}
        if any(isinstance(n, ast.Name) and n.id in cap and isinstance(n.ctx, (ast.Store, ast.Del)) and getattr(n, "lineno", 0) > st.lineno for n in ast.walk(fn)):
            continue
        calls = []
        for u in loads:
            c = getattr(u, "_parent", None)
            if not (isinstance(c, ast.Call) and c.func is u and not any(isinstance(x, ast.Starred) for x in c.args) and not any(k.arg is None for k in c.keywords)):
                calls = []
                break
            calls.append(c)
        if not calls:
            continue
        for c in calls:
            kws = {k.arg: k.value for k in pc.keywords}
            kws.update({k.arg: k.value for k in c.keywords})
            new = ast.Call(func=clone(target), args=[clone(x) for x in pc.args[1:]] + list(c.args), keywords=[ast.keyword(arg=k, value=clone(v) if v in [kk.value for kk in pc.keywords] else v) for k, v in kws.items()])
            ast.copy_location(new, c)
            for x in ast.walk(new):
                if isinstance(x, (ast.expr, ast.keyword)) and not hasattr(x, "lineno"):
                    ast.copy_location(x, c)
            ast.fix_missing_locations(new)
            _replace_in_parent(c, new)
        _remove_stmt(st)
        _set_parents(fn)
        count += 1
    return count


def reduce_local_abbreviations(tree: ast.Module, is_new_nested) -> int:
    """rewrite in place; is_new_nested(FunctionDef node) says whether a nested function is one the pinned tree does not have"""
    _set_parents(tree)
    total = 0
    for fn in [n for n in ast.walk(tree) if isinstance(n, (ast.FunctionDef, ast.AsyncFunctionDef))]:
        if not any(isinstance(n, ast.FunctionDef) for n in walk_no_nested(fn, include_root=False)) and "partial" not in {getattr(n.func, "id", getattr(n.func, "attr", None)) for n in ast.walk(fn) if isinstance(n, ast.Call)}:
            continue
        total += _reduce_closures_in(fn, is_new_nested)
        total += _reduce_partials_in(fn)
    if total:
        _set_parents(tree)
    return total
