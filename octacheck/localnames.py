"""Canonical names for the handful of locals the rules read by name.

Several rules recognise a construct through the name of a local (`pos` and `tokens` in tokenize, `token` in the parser's
value reader, `output_parts` in the fence-aware normaliser ...). A maintainer may rename such a local at any time without
changing behaviour. To keep the rules from depending on that, the source model renames - in its own parsed copy of the module,
at index time, never on disk - every local listed here to the name the rules expect, recognising it by its DEFINITION
(`x = self.current()`), by its USE (`"".join(x)`, `return x`, `while x < len(<param>)`) or by the LOOP it is the target of.
On a tree that already uses the expected names this is a no-op. A name is never renamed onto a name that is already used in
the function for something else (the rule then fails closed with ANALYSIS-ERROR as before).
"""
from __future__ import annotations

import ast
from typing import Callable, Iterator

Spec = tuple[str, Callable[[ast.AST], bool]]
LoopSpec = tuple[tuple[str, ...], Callable[[ast.AST], bool]]
Finder = tuple[str, Callable[[ast.AST], "str | None"]]


def _walk(node: ast.AST) -> Iterator[ast.AST]:
    """the function's own statements and expressions in source order (nested defs are not entered)"""
    for n in ast.iter_child_nodes(node):  # pre-order, in source order
        yield n
        if isinstance(n, (ast.FunctionDef, ast.AsyncFunctionDef, ast.Lambda, ast.ClassDef)):
            continue
        yield from _walk(n)


def u(e: ast.AST | None) -> str:
    return ast.unparse(e) if e is not None else ""


def params_of(fn: ast.AST) -> list[str]:
    a = fn.args  # type: ignore[attr-defined]
    return [x.arg for x in a.posonlyargs + a.args + a.kwonlyargs]


# ------------------------------------------------------------------------------------------------ finders
def joined(sep: "str | None" = None):
    def find(fn: ast.AST) -> "str | None":
        for n in _walk(fn):
            if isinstance(n, ast.Call) and isinstance(n.func, ast.Attribute) and n.func.attr == "join" and isinstance(n.func.value, ast.Constant) and (sep is None or n.func.value.value == sep) and len(n.args) == 1 and isinstance(n.args[0], ast.Name):
                return n.args[0].id
        return None
    return find


def returned_tuple_elem(i: int, width: int):
    def find(fn: ast.AST) -> "str | None":
        for n in _walk(fn):
            if isinstance(n, ast.Return) and isinstance(n.value, ast.Tuple) and len(n.value.elts) == width and isinstance(n.value.elts[i], ast.Name):
                return n.value.elts[i].id
        return None
    return find


def while_counter_over_param(fn: ast.AST) -> "str | None":
    """`while <x> < len(<param>)` at the top level of the function: x"""
    ps = set(params_of(fn))
    for st in fn.body:  # type: ignore[attr-defined]
        if isinstance(st, ast.While) and isinstance(st.test, ast.Compare) and isinstance(st.test.left, ast.Name) and len(st.test.ops) == 1 and isinstance(st.test.ops[0], ast.Lt):
            r = st.test.comparators[0]
            if isinstance(r, ast.Call) and isinstance(r.func, ast.Name) and r.func.id == "len" and len(r.args) == 1 and isinstance(r.args[0], ast.Name) and r.args[0].id in ps:
                return st.test.left.id
    return None


def appended_with(pred: Callable[[ast.AST], bool]):
    """the list local that receives `.append(<arg satisfying pred>)`"""
    def find(fn: ast.AST) -> "str | None":
        for n in _walk(fn):
            if isinstance(n, ast.Call) and isinstance(n.func, ast.Attribute) and n.func.attr == "append" and isinstance(n.func.value, ast.Name) and n.args:
                try:
                    if pred(n.args[0]):
                        return n.func.value.id
                except Exception:  # noqa: BLE001
                    pass
        return None
    return find


# ------------------------------------------------------------------------------------------------ registry
# (module name suffix, function qualname) -> (definition specs, loop specs, finders)
REGISTRY: dict[tuple[str, str], tuple[list[Spec], list[LoopSpec], list[Finder]]] = {}
UNPACKS: dict[tuple[str, str], list[LoopSpec]] = {}  # tuple-unpacking assignments: (expected names, predicate on the VALUE)


def register(mod: str, qual: str, specs: list[Spec] | None = None, loops: list[LoopSpec] | None = None, finders: list[Finder] | None = None, unpacks: list[LoopSpec] | None = None) -> None:
    REGISTRY[(mod, qual)] = (specs or [], loops or [], finders or [])
    UNPACKS[(mod, qual)] = unpacks or []


_current = lambda v: u(v) == "self.current()"  # noqa: E731

register("core.parser", "Parser.parse_value", specs=[("token", _current)])
register("core.parser", "Parser._consume_bracket_annotation", specs=[("tok", _current)], finders=[("annotation_tokens", joined(""))])
register("core.parser", "Parser._reconstruct_pattern_from_tokens", finders=[("parts", joined(""))],
         loops=[(("token",), lambda it: isinstance(it, ast.Name) and it.id.startswith("token"))])


# ---- core.lexer tokenize: recognised by what the locals ARE, not by what they are called
def _assigned_from(pred):
    """the single Name target of the first (source order) plain assignment whose value satisfies pred"""
    def find(fn: ast.AST) -> "str | None":
        for n in _walk(fn):
            if isinstance(n, ast.Assign) and len(n.targets) == 1 and isinstance(n.targets[0], ast.Name):
                try:
                    if pred(n.value):
                        return n.targets[0].id
                except Exception:  # noqa: BLE001
                    pass
        return None
    return find


def _token_arg(i: int):
    """the name passed as the i-th positional argument of the Token(...) built right after a pattern match (6 arguments)"""
    def find(fn: ast.AST) -> "str | None":
        for n in _walk(fn):
            if isinstance(n, ast.Call) and isinstance(n.func, ast.Name) and n.func.id == "Token" and len(n.args) == 6 and all(isinstance(a, ast.Name) for a in n.args):
                return n.args[i].id
        return None
    return find


def _pattern_loop(i: int):
    """target i of the `for pattern, token_type in <compiled TOKEN_PATTERNS>` loop (the loop whose body calls <t0>.match)"""
    def find(fn: ast.AST) -> "str | None":
        for n in _walk(fn):
            if isinstance(n, ast.For) and isinstance(n.target, ast.Tuple) and len(n.target.elts) == 2 and all(isinstance(e, ast.Name) for e in n.target.elts):
                t0 = n.target.elts[0].id
                if any(isinstance(c, ast.Call) and isinstance(c.func, ast.Attribute) and c.func.attr == "match" and isinstance(c.func.value, ast.Name) and c.func.value.id == t0 for b in n.body for c in ast.walk(b)):
                    return n.target.elts[i].id
        return None
    return find


def _unpacked_from(callee: str, i: int, width: int):
    def find(fn: ast.AST) -> "str | None":
        for n in _walk(fn):
            if isinstance(n, ast.Assign) and len(n.targets) == 1 and isinstance(n.targets[0], ast.Tuple) and len(n.targets[0].elts) == width and isinstance(n.value, ast.Call) and u(n.value.func).split(".")[-1] == callee and isinstance(n.targets[0].elts[i], ast.Name):
                return n.targets[0].elts[i].id
        return None
    return find


def _index_into(coll_finder):
    """the name used as subscript of the collection found by coll_finder in a test `x < len(<coll>)`"""
    def find(fn: ast.AST) -> "str | None":
        coll = coll_finder(fn)
        if coll is None:
            return None
        for n in _walk(fn):
            if isinstance(n, ast.Compare) and len(n.ops) == 1 and isinstance(n.ops[0], ast.Lt) and isinstance(n.left, ast.Name) and u(n.comparators[0]) == f"len({coll})":
                return n.left.id
        return None
    return find


register("core.lexer", "tokenize", finders=[
    ("pos", while_counter_over_param),
    ("tokens", returned_tuple_elem(0, 2)),
    ("repairs", returned_tuple_elem(1, 2)),
    ("pattern", _pattern_loop(0)),
    ("token_type", _pattern_loop(1)),
    ("match", _assigned_from(lambda v: isinstance(v, ast.Call) and isinstance(v.func, ast.Attribute) and v.func.attr == "match" and len(v.args) == 2)),
    ("matched_text", _assigned_from(lambda v: isinstance(v, ast.Call) and isinstance(v.func, ast.Attribute) and v.func.attr == "group" and not v.args)),
    ("value", _token_arg(1)),
    ("line", _token_arg(2)),
    ("column", _token_arg(3)),
    ("normalized_from", _token_arg(4)),
    ("raw_lexeme", _token_arg(5)),
    ("fence_spans", _unpacked_from("_normalize_with_fence_detection", 1, 2)),
    ("fence_span_idx", _index_into(_unpacked_from("_normalize_with_fence_detection", 1, 2))),
])


UNPACKS[("core.lexer", "tokenize")] = [
    (("span_start", "span_end", "marker", "tag"), lambda v, rn: isinstance(v, ast.Subscript) and isinstance(v.value, ast.Name) and rn.get(v.value.id, v.value.id) == "fence_spans"),
]
register("core.lexer", "_normalize_with_fence_detection", finders=[("fence_spans", returned_tuple_elem(1, 2)), ("output_parts", joined(""))])


def _returned_name(fn: ast.AST) -> "str | None":
    names = {n.value.id for n in _walk(fn) if isinstance(n, ast.Return) and isinstance(n.value, ast.Name)}
    return names.pop() if len(names) == 1 else None


register("mcp.write", "WriteTool._map_parse_warnings_to_corrections", finders=[("corrections", _returned_name)])
register("mcp.write", "WriteTool._track_corrections", finders=[("corrections", _returned_name)])


def _toggled_flag(fn: ast.AST) -> "str | None":
    """the one local that is assigned both True and False (an open/closed state flag)"""
    t, f = set(), set()
    for n in _walk(fn):
        if isinstance(n, ast.Assign) and len(n.targets) == 1 and isinstance(n.targets[0], ast.Name) and isinstance(n.value, ast.Constant) and isinstance(n.value.value, bool):
            (t if n.value.value else f).add(n.targets[0].id)
    both = t & f
    return both.pop() if len(both) == 1 else None


register("mcp.write", "WriteTool._repair_curly_brace_annotations", finders=[("in_fence", _toggled_flag)])


# ------------------------------------------------------------------------------------------------ engine
def compute_renames(fn: ast.AST, specs: list[Spec], loops: list[LoopSpec], finders: list[Finder]) -> dict[str, str]:
    used = {n.id for n in ast.walk(fn) if isinstance(n, ast.Name)} | {a.arg for a in ast.walk(fn) if isinstance(a, ast.arg)}
    out: dict[str, str] = {}

    def want(old: str, new: str) -> None:
        if old == new or old in out or new in out.values():
            return
        if new in used:
            return  # the expected name already means something else here
        out[old] = new

    for expected, pred in specs:
        for n in _walk(fn):
            if isinstance(n, (ast.Assign, ast.AnnAssign)):
                tg = n.targets[0] if isinstance(n, ast.Assign) and len(n.targets) == 1 else (n.target if isinstance(n, ast.AnnAssign) else None)
                if isinstance(tg, ast.Name) and n.value is not None:
                    try:
                        hit = pred(n.value)
                    except Exception:  # noqa: BLE001
                        hit = False
                    if hit:
                        want(tg.id, expected)
                        break
    for expected, finder in finders:
        try:
            cur = finder(fn)
        except Exception:  # noqa: BLE001
            cur = None
        if cur:
            want(cur, expected)
    for names, pred in loops:
        for n in _walk(fn):
            if isinstance(n, (ast.For, ast.AsyncFor)):
                try:
                    hit = pred(n.iter)
                except Exception:  # noqa: BLE001
                    hit = False
                if hit:
                    elts = n.target.elts if isinstance(n.target, ast.Tuple) else [n.target]
                    for e, w in zip(elts, names):
                        if isinstance(e, ast.Name):
                            want(e.id, w)
                    break
    return out


def apply_renames(fn: ast.AST, renames: dict[str, str]) -> None:
    if not renames:
        return
    for n in ast.walk(fn):
        if isinstance(n, ast.Name) and n.id in renames:
            n.id = renames[n.id]
        elif isinstance(n, ast.ExceptHandler) and n.name in renames:
            n.name = renames[n.name]


def canonicalise_module(modname: str, functions: dict) -> dict[str, dict[str, str]]:
    """rename, in the parsed module itself, the registered locals of the registered functions; returns what was renamed"""
    done: dict[str, dict[str, str]] = {}
    for (suffix, qual), (specs, loops, finders) in REGISTRY.items():
        if not (modname == suffix or modname.endswith("." + suffix)):
            continue
        fi = functions.get(qual)
        if fi is None:
            continue
        rn = compute_renames(fi.node, specs, loops, finders)
        # tuple-unpacking assignments (after the renames above are known: predicates see the ORIGINAL names)
        used = {n.id for n in ast.walk(fi.node) if isinstance(n, ast.Name)}
        for names, pred in UNPACKS.get((suffix, qual), []):
            for n in _walk(fi.node):
                if isinstance(n, ast.Assign) and len(n.targets) == 1 and isinstance(n.targets[0], ast.Tuple) and len(n.targets[0].elts) == len(names) and all(isinstance(e, ast.Name) for e in n.targets[0].elts):
                    try:
                        hit = pred(n.value, rn)
                    except Exception:  # noqa: BLE001
                        hit = False
                    if hit:
                        for e, w in zip(n.targets[0].elts, names):
                            if e.id != w and e.id != "_" and w not in used and e.id not in rn and w not in rn.values():
                                rn[e.id] = w
                        break
        if rn:
            apply_renames(fi.node, rn)
            done[qual] = rn
    return done
