"""Canonical names for the handful of locals the rules read by name.

Several rules recognise a construct through the name of a local (`pos` and `tokens` in tokenize, `token` in the parser's
value reader, `output_parts` in the fence-aware normaliser ...). A maintainer may rename such a local at any time without
changing behaviour. To keep the rules from depending on that, the source model renames - in its own parsed copy of the module,
at index time, never on disk - every local listed here to the name the rules expect, recognising it by its DEFINITION
(`x = self.current()`), by its USE (`"".join(x)`, `return x`, `while x < len(<param>)`) or by the LOOP it is the target of.
On a tree that already uses the expected names this is a no-op. A name is never renamed onto a name that is already used in
the function for something else (the rule then fails closed with ANALYSIS-ERROR as before).
"""
from __future__ import annotations

import ast
from typing import Callable, Iterator

Spec = tuple[str, Callable[[ast.AST], bool]]
LoopSpec = tuple[tuple[str, ...], Callable[[ast.AST], bool]]
Finder = tuple[str, Callable[[ast.AST], "str | None"]]


def _walk(node: ast.AST) -> Iterator[ast.AST]:
    """the function's own statements and expressions in source order (nested defs are not entered)"""
    for n in ast.iter_child_nodes(node):  # pre-order, in source order
        yield n
        if isinstance(n, (ast.FunctionDef, ast.AsyncFunctionDef, ast.Lambda, ast.ClassDef)):
            continue
        yield from _walk(n)


def u(e: ast.AST | None) -> str:
    return ast.unparse(e) if e is not None else ""


def params_of(fn: ast.AST) -> list[str]:
    a = fn.args  # type: ignore[attr-defined]
    return [x.arg for x in a.posonlyargs + a.args + a.kwonlyargs]


# ------------------------------------------------------------------------------------------------ finders
def joined(sep: "str | None" = None):
    def find(fn: ast.AST) -> "str | None":
        for n in _walk(fn):
            if isinstance(n, ast.Call) and isinstance(n.func, ast.Attribute) and n.func.attr == "join" and isinstance(n.func.value, ast.Constant) and (sep is None or n.func.value.value == sep) and len(n.args) == 1 and isinstance(n.args[0], ast.Name):
                return n.args[0].id
        return None
    return find


def returned_tuple_elem(i: int, width: int):
    def find(fn: ast.AST) -> "str | None":
        for n in _walk(fn):
            if isinstance(n, ast.Return) and isinstance(n.value, ast.Tuple) and len(n.value.elts) == width and isinstance(n.value.elts[i], ast.Name):
                return n.value.elts[i].id
        return None
    return find


def while_counter_over_param(fn: ast.AST) -> "str | None":
    """`while <x> < len(<param>)` at the top level of the function: x"""
    ps = set(params_of(fn))
    for st in fn.body:  # type: ignore[attr-defined]
        if isinstance(st, ast.While) and isinstance(st.test, ast.Compare) and isinstance(st.test.left, ast.Name) and len(st.test.ops) == 1 and isinstance(st.test.ops[0], ast.Lt):
            r = st.test.comparators[0]
            if isinstance(r, ast.Call) and isinstance(r.func, ast.Name) and r.func.id == "len" and len(r.args) == 1 and isinstance(r.args[0], ast.Name) and r.args[0].id in ps:
                return st.test.left.id
    return None


def appended_with(pred: Callable[[ast.AST], bool]):
    """the list local that receives `.append(<arg satisfying pred>)`"""
    def find(fn: ast.AST) -> "str | None":
        for n in _walk(fn):
            if isinstance(n, ast.Call) and isinstance(n.func, ast.Attribute) and n.func.attr == "append" and isinstance(n.func.value, ast.Name) and n.args:
                try:
                    if pred(n.args[0]):
                        return n.func.value.id
                except Exception:  # noqa: BLE001
                    pass
        return None
    return find


# ------------------------------------------------------------------------------------------------ registry
# (module name suffix, function qualname) -> (definition specs, loop specs, finders)
REGISTRY: dict[tuple[str, str], tuple[list[Spec], list[LoopSpec], list[Finder]]] = {}


def register(mod: str, qual: str, specs: list[Spec] | None = None, loops: list[LoopSpec] | None = None, finders: list[Finder] | None = None) -> None:
    REGISTRY[(mod, qual)] = (specs or [], loops or [], finders or [])


_current = lambda v: u(v) == "self.current()"  # noqa: E731

register("core.parser", "Parser.parse_value", specs=[("token", _current)])
register("core.parser", "Parser._consume_bracket_annotation", specs=[("tok", _current)], finders=[("annotation_tokens", joined(""))])
register("core.parser", "Parser._reconstruct_pattern_from_tokens", finders=[("parts", joined(""))],
         loops=[(("token",), lambda it: isinstance(it, ast.Name) and it.id.startswith("token"))])


# ------------------------------------------------------------------------------------------------ engine
def compute_renames(fn: ast.AST, specs: list[Spec], loops: list[LoopSpec], finders: list[Finder]) -> dict[str, str]:
    used = {n.id for n in ast.walk(fn) if isinstance(n, ast.Name)} | {a.arg for a in ast.walk(fn) if isinstance(a, ast.arg)}
    out: dict[str, str] = {}

    def want(old: str, new: str) -> None:
        if old == new or old in out or new in out.values():
            return
        if new in used:
            return  # the expected name already means something else here
        out[old] = new

    for expected, pred in specs:
        for n in _walk(fn):
            if isinstance(n, (ast.Assign, ast.AnnAssign)):
                tg = n.targets[0] if isinstance(n, ast.Assign) and len(n.targets) == 1 else (n.target if isinstance(n, ast.AnnAssign) else None)
                if isinstance(tg, ast.Name) and n.value is not None:
                    try:
                        hit = pred(n.value)
                    except Exception:  # noqa: BLE001
                        hit = False
                    if hit:
                        want(tg.id, expected)
                        break
    for expected, finder in finders:
        try:
            cur = finder(fn)
        except Exception:  # noqa: BLE001
            cur = None
        if cur:
            want(cur, expected)
    for names, pred in loops:
        for n in _walk(fn):
            if isinstance(n, (ast.For, ast.AsyncFor)):
                try:
                    hit = pred(n.iter)
                except Exception:  # noqa: BLE001
                    hit = False
                if hit:
                    elts = n.target.elts if isinstance(n.target, ast.Tuple) else [n.target]
                    for e, w in zip(elts, names):
                        if isinstance(e, ast.Name):
                            want(e.id, w)
                    break
    return out


def apply_renames(fn: ast.AST, renames: dict[str, str]) -> None:
    if not renames:
        return
    for n in ast.walk(fn):
        if isinstance(n, ast.Name) and n.id in renames:
            n.id = renames[n.id]
        elif isinstance(n, ast.ExceptHandler) and n.name in renames:
            n.name = renames[n.name]


def canonicalise_module(modname: str, functions: dict) -> dict[str, dict[str, str]]:
    """rename, in the parsed module itself, the registered locals of the registered functions; returns what was renamed"""
    done: dict[str, dict[str, str]] = {}
    for (suffix, qual), (specs, loops, finders) in REGISTRY.items():
        if not (modname == suffix or modname.endswith("." + suffix)):
            continue
        fi = functions.get(qual)
        if fi is None:
            continue
        rn = compute_renames(fi.node, specs, loops, finders)
        if rn:
            apply_renames(fi.node, rn)
            done[qual] = rn
    return done
